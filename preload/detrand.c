/* LD_PRELOAD shim: makes the seed of Rust's std::collections::HashMap (RandomState)
 * a function of DETRAND_SEED instead of the OS entropy pool.
 *
 * std seeds each thread's RandomState once with getrandom(buf, 16, GRND_INSECURE).
 * Only calls carrying GRND_INSECURE are answered here (a constant stream derived from
 * DETRAND_SEED, identical for every thread, so the order in which threads ask does not
 * matter); every other getrandom call (OpenSSL, SQLCipher salts) goes to the kernel.
 * Without DETRAND_SEED in the environment the shim is transparent.
 */
#define _GNU_SOURCE
#include <stddef.h>
#include <stdint.h>
#include <stdlib.h>
#include <sys/types.h>
#include <sys/syscall.h>
#include <unistd.h>

#ifndef GRND_INSECURE
#define GRND_INSECURE 0x0004
#endif

static uint64_t splitmix(uint64_t *s) {
    uint64_t z = (*s += 0x9E3779B97F4A7C15ULL);
    z = (z ^ (z >> 30)) * 0xBF58476D1CE4E5B9ULL;
    z = (z ^ (z >> 27)) * 0x94D049BB133111EBULL;
    return z ^ (z >> 31);
}

ssize_t getrandom(void *buf, size_t buflen, unsigned int flags) {
    const char *seed = getenv("DETRAND_SEED");
    if (seed != NULL && (flags & GRND_INSECURE)) {
        uint64_t s = strtoull(seed, NULL, 10);
        unsigned char *p = (unsigned char *)buf;
        size_t i = 0;
        while (i < buflen) {
            uint64_t v = splitmix(&s);
            for (int k = 0; k < 8 && i < buflen; k++, i++) {
                p[i] = (unsigned char)(v >> (8 * k));
            }
        }
        return (ssize_t)buflen;
    }
    return syscall(SYS_getrandom, buf, buflen, flags);
}
