#!/bin/bash
# usage: confirm_mutant.sh <worktree> <seeded-dir>
# confirms independently: with patch+demo -> 158 existing tests pass and the demo fails; without the patch -> everything passes
set -u
WT=$1; SD=$2
cd "$WT" || exit 2
git checkout -q -- . 2>/dev/null; git clean -fdq -e target -e patch.diff -e demo.diff -e NOTES.md 2>/dev/null
git apply "$SD/demo.diff" || { echo "demo does not apply"; exit 2; }
echo "== without the change" > "$SD/confirm.log"
CARGO_NET_OFFLINE=true cargo test --offline --lib 2>&1 | grep -E "^test result|mutant_demo.*(ok|FAILED)" >> "$SD/confirm.log"
git apply "$SD/patch.diff" || { echo "patch does not apply"; exit 2; }
echo "== with the change" >> "$SD/confirm.log"
CARGO_NET_OFFLINE=true cargo test --offline --lib 2>&1 | grep -E "^test result|mutant_demo.*(ok|FAILED)" >> "$SD/confirm.log"
cat "$SD/confirm.log"
