#!/usr/bin/env python3
"""Regenerates /verif/MANIFEST.json from the table below (single source of truth for the registered checks)."""
import json, subprocess
NET = ("Real code: database service (main loop, reader/writer threads, SQLCipher storage), authorisation actor, batch writer, "
       "signature verification threads, event service; for multi-node engines also QueryService, synchronise_room and process_inbound. "
       "Stub: QUIC/TLS/frame layer, multicast, beacon, PeerConnectionService (simulator-owned typed channels). "
       "Seeded sampling, not enumeration: a clean batch is evidence proportional to the reach counters in the evidence file; "
       "one child process per simulated run, every failure minimised (delta debugging) into a replay file that reproduces in a fresh process.")
TECH = "deterministic simulation with fault injection (seeded schedule/fault search over the real code, replayable traces)"
CHECKS = {
 "C03": ("repl", "exploration", "Seeded search over histories and pull schedules of 2-4 real nodes; after a fault-free heal phase all members must hold identical content, logs and query results, a further round must transfer nothing, winners must be acknowledged versions.",
         "Faults: connection cuts at any message, interleaved sessions, crash/restart, clock skew and jumps; no message loss inside a live stream (QUIC excludes it). Open known findings (multi-entity summary blindness; references added with a losing source version) are reported as KNOWN-FINDING; the single-entity / non-concurrent-reference space is checked in full."),
 "C02": ("byz", "exploration", "An honest victim runs its real pull of a room while a man in the middle holding its own key (own-rows right on one entity from a known date, possibly disabled later) and every validly signed row it was served rewrites the honest source's answers: 16 operators over rows, references and deletion records (wrong room, no right, before enabled / after disabled, foreign row replaced, deleted or moved with the own-rows right only, tampered, oversized, model-violating, unknown entity or label, foreign / absent source row) interleaved with honest writes and pulls; afterwards nothing injected is found in any table, the attacked rows are unchanged, and after an undisturbed pull everything the victim stores is something the source stores or a row the adversary was entitled to write, and its daily log is the function of its content.",
         "Signatures are real ed25519: the adversary cannot sign for keys it does not hold. Three open known findings, all on references (accepted on the author's own-rows right alone: source row of another room, absent, or written by somebody else)."),
 "C06": ("byz,rights", "exploration", "Two engines. (a) In the rights engine, after every accepted local operation and after every synchronisation, every stored row, reference and deletion record of every node is verified against its own signature exactly as stored. (b) Same setting as C02 with signature operators: a validly signed reference re-cut at the boundary of its two adjacent variable-length fields, in a model built so that both cuts are reference fields, and rows / references in the honest user's name whose signature is the user's answer to an identity challenge chosen by the adversary: nothing the user did not write may be stored under its key.",
         "Only references have adjacent variable-length fields in their digest (rows go through JSON and fixed-size values; deletion records keep strings apart). One open known finding (reference digest without lengths); the signing request was a genuine signing oracle and is repaired (fix 2781df6)."),
 "C07": ("byz", "exploration", "Same setting with room-definition operators: the adversary claims a newer definition date and substitutes the definition the victim imports through the real add_room_node, for a room the victim knows and for a member that never saw it: older definition with entries omitted, admin-signed user entry re-attached as admin or moved to the all-rights group, right entry of another room, self-signed admin / right / user-admin entries, existing reference signed again; every entry stored before is stored unchanged after, nothing new is stored and the decision grid identities x entities x dates x {admin, member, own, all} does not move (fresh member: grants nothing the honest definition does not).",
         "None of the crafted definitions contains an entry added by somebody entitled to, so any change is a violation; honest news are pulled first. Open known findings share two causes (placing references never authorship-checked - the shipped unit test room_node::tests::invalid asserts it; a room not seen before authorises itself). With proposed_fixes/C07-reference-authorship.diff applied the known-room part of the check is clean."),
 "C08": ("serve", "exploration", "An honest server with 2-4 rooms and a requester whose membership differs per room and changes while connected, talking to the server's real connection services; every request kind before/after the identity proof and the room list, naming rooms and rows of rooms it does and does not belong to; every answer is decoded and must only carry data of rooms the requester is a member of at the server's date.",
         "Membership is read from the server's in-memory room (is_user_valid_at). The requester answers the server's own requests with errors."),
 "C09": ("repl,rights", "exploration", "In two engines (replication histories; and the rights workload with moves between rooms, nested creations and several authors): At every recomputation barrier on every node: no mark left, counts and daily hashes recomputed by independent harness code from the stored rows, the whole log (chained hash included) equal to a from-scratch rebuild by the real compute() over the same rows, equal content <=> equal logs across nodes.",
         "The chained hash is checked metamorphically (function of content), never re-implemented. 'Different rows or deletion records => different logs' is evaluated on rows and deletion records (references are not part of the log by design)."),
 "C11": ("repl", "exploration", "After every step, on every node, no row or reference is stored at the deleted or an older version while that node holds its deletion record; after heal the row is absent and the record present everywhere.",
         "Rows updated elsewhere to a version newer than the deleted one are outside the statement. Multi-entity rooms inherit the open summary-blindness finding of C03."),
 "C14": ("chaos", "exploration", "Hostile inputs as injected faults on a live node: per run a data model over awkward identifiers (storage-engine and language keywords, digits first, '_', Unicode) with every field type and hostile defaults, then requests generated from the grammar over it (creations, updates, deletions, queries with every parameter form), every parameter kind against every field type, character-level mutations of requests and model text, hostile answers of every kind while the node pulls (garbage, truncated, huge length, other kind, rows / references / deletion records with broken keys, signatures, entities, dates, and validly signed rows with extreme dates and JSON), hostile requests on its serving side, local use of whatever was received, restarts; after EVERY input: no panic in the process, every service thread alive, no hang, and a probe mutation, probe query and four signature verifications answered normally; a request the parser accepts is never rejected by the storage engine.",
         "'Rejected by the database engine' = the storage-engine variant of the database error. QUIC frame parsing is below the simulated transport (hostile bytes enter as message payloads); invitation bytes are exercised in the C19 engine. Ten genuine defects found and repaired (see known_findings.json)."),
 "C15": ("model", "exploration", "Two nodes holding data; sequences of data-model versions built from valid and invalid edits (also a version valid for one entity and invalid for another) applied at run time or at restart, with restarts on the same model in between: accepted versions keep every row readable with the same values under the same names, identifiers never change or collide and both nodes agree on them; refused versions change nothing (running model, stored model, rows, next requests).",
         "The verdict of a run-time update is read from the request itself (GraphDatabaseService::update_data_model drops it). Hash-map seeds differ per run and per map."),
 "C16": ("phase", "exploration", "2-3 mutations of one row in flight together on a live node (concurrent callers or the mutation stream); the simulator decides with the batch gate whether each later mutation is read before or after the earlier ones are written; the final row must equal the acknowledged mutations applied serially in some order.",
         "Open known finding: no per-row serialisation, so every schedule in which two mutations are in flight together loses a change; schedules where mutations run one at a time are checked in full (a lost update there is a new violation)."),
 "C17": ("repl", "exploration", "At every barrier each vocabulary token is searched on every node and compared with the node's own current text (plain query of the same node); shapes distinguish how the stored version arrived.",
         "Three open known findings: the synchronisation path and deletions never maintain the contentless full-text index; locally written, never-synchronised rows are checked in full."),
 "C01": ("rights", "exploration", "2-4 identities and 1-2 rooms with evolving definitions; every operation shape by any identity; each API verdict compared with an independent rights model at the operation's date; a refused operation must leave the whole database (rows, references, deletion logs, daily log, room change log) unchanged; direct mutations or deletions of authorisation rows must be refused.",
         "Rights model assumptions are listed in the evidence file. One open known finding: user admins cannot use their right (the feature is inconsistent between the local and the import path)."),
 "C10": ("rights", "exploration", "The in-memory room of every node - live on the mutating node, imported on the others, reloaded after restart - is questioned over identities x entities x entry dates +-1 ms x {admin, member, own-rows, all-rows} and must give the decisions of the rights model; every restart must succeed; an instance that never saw the rooms (late joiner) imports them after several definition changes, decides like the model, restarts and decides the same.",
         "Rooms reach importers through the real pull path (verify_room_node, add_room_node); the grid is read with the cfg-only VerifGetRoom accessor."),
 "C12": ("rights", "exploration", "After every locally accepted data operation all peers holding the same room definitions pull until quiet and must store exactly the same rows, references and deletion records; a creation refused locally for lack of right, signed with the refused author's key, is offered to a peer through the real ingestion entry point and must be refused.",
         "The two implementations are each other's oracle. Inherits the open summary-blindness finding for writes touching a second entity of the last day."),
 "C13": ("crash", "exploration", "One node under the batch gate and 15 writer fault points x {statement error once, sticky, crash in transaction}: every operation is entirely present or absent, acknowledged operations survive the fault and a restart, failed ones leave nothing, the log is consistent after the start-up recomputation, and a fault-free request is served after a transient error.",
         "Statement-level injection inside the real write functions (the shipped ROLLBACK handling runs; a COMMIT failure is produced for real with a deferred foreign-key violation). In-process crash = writer thread dies inside the open transaction and the node restarts on the same files; torn pages / power loss are out of reach (no VFS seam)."),
 "C19": ("trust", "exploration", "Real connection loops and a real PeerManager per node: invitations created, accepted (also tampered), used, re-offered and offered after restarts between honest nodes relayed message by message; an adversary holding only its own identities answers the identity challenge in 8 ways on the token of an allowed peer or of an invitation; the victim may bind a key, send Ready, report connected, consume an invitation or serve rooms only after a proof of the expected key on this connection's challenge; token(a,b)=token(b,a).",
         "The election between two QUIC connections of one pair is not simulated (needs quinn objects)."),
 "C20": ("lock,trust", "exploration", "The real RoomLockService actor under seeded message schedules (requests, repeated and overlapping requests, releases, stray and double unlocks, connection ends, receivers dropped while waiting): a room is held by at most one connection, at most `limit` rooms at once, grants only for pending requests, and after the last fault every pending request of a live connection is granted once the holders release.",
         "Two engines: (a) abstract well-behaved clients on the real lock actor (40 schedules per child process); (b) the real LocalPeerService connection loop against a scripted remote that disappears at three exit points, followed by a probe client that must obtain every room."),
 "C18": ("crash,repl", "exploration", "Subscriber subscribed before the run; mutations, deletions, streams, room mutations and recomputation passes grouped into chosen transactions through the batch gate, plus batches ingested by real pulls: every acknowledged change must be covered by a DataChanged (room, entity, day) or RoomModified event.",
         "No requirement on which event or how many. The 16-slot broadcast is drained at every settle so the harness never lags."),
}
def main():
    m = json.load(open('/verif/MANIFEST.json'))
    props = [json.loads(l) for l in open('/verif/properties.jsonl')]
    hooks = subprocess.check_output(['git','-C','/repo','log','--format=%h %s']).decode().splitlines()
    m['hooks']['source_commits'] = [l.split()[0] for l in hooks if l.split(' ',1)[1].startswith('verif hook')][::-1]
    m['hooks']['guard'] = "--cfg discret_verif"
    m['hooks']['add_only'] = True
    m['setup_cmd'] = "gcc -O2 -shared -fPIC -o preload/detrand.so preload/detrand.c && cd sim && CARGO_NET_OFFLINE=true cargo build --offline"
    engines = {}
    checks = []
    for pid,(eng,level,text,note) in sorted(CHECKS.items()):
        for e in eng.split(','):
            engines.setdefault(e, []).append(pid)
        checks.append({"property_id":pid,"quick_cmd":f"./check {pid} --tier quick","thorough_cmd":f"./check {pid} --tier thorough",
          "evidence_file":f"evidence/{pid}.json","replay_cmd_template":f"./check {pid} --replay {{path}}","engine":eng,
          "level_claimed":{"category":level,"text":text,"design_ref":f"DESIGN.md §6 {pid}"},
          "level_note":NET+" "+note,"technique":TECH})
    m['checks'] = checks
    kinds = {
     "repl":"2-4 real nodes on per-node paused current-thread tokio runtimes; simulator-owned transport, clocks, entropy, hash seeds; seeded traces with cuts, interleaved sessions, crash/restart, clock skew/jumps",
     "crash":"one real node (+ a prepared peer) under the batch gate and the writer fault points; in-process crash and restart on the same files",
     "rights":"2-4 identities sharing rooms; room histories, every operation shape, barriered pulls, clock skew; independent rights model as oracle",
     "byz":"honest victim(s) facing a scripted Byzantine peer / man-in-the-middle on the simulated transport",
     "model":"data-model version sequences at run time and at restart on two nodes with different hash-map seeds",
     "phase":"read / validate+sign / write phases of 2-3 mutations on one row under a seeded scheduler",
     "lock":"real RoomLockService actor under seeded message schedules with abstract clients",
     "serve":"honest server facing a requester of varying membership through the real connection services",
     "trust":"real connection loops + real PeerManager per node; honest relayed handshakes, invitations, and a scripted adversary on the identity challenge; connection-end lock scenarios",
     "model":"data-model version sequences at run time and at restart, hash-order seeds varied",
     "chaos":"hostile inputs and messages as injected faults on a live node; health oracle",
    }
    m['engines'] = [{"name":e,"path":f"sim/src/engines/{e}.rs","serves_properties":sorted(p),"kind_free_text":kinds.get(e,"")} for e,p in sorted(engines.items())]
    claimed = set(CHECKS)
    na = [x for x in m.get('not_applicable',[]) if x['property_id'] in ('C04','C05')]
    for p in props:
        if p['id'] not in claimed and p['id'] not in ('C04','C05'):
            na.append({"property_id":p['id'],"reason":"check not built yet (planned, DESIGN §6); not claimed until its engine lands"})
    m['not_applicable'] = na
    json.dump(m, open('/verif/MANIFEST.json','w'), indent=1)
    print("checks:", sorted(claimed), "hooks:", m['hooks']['source_commits'])
main()
