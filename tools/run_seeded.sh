#!/bin/bash
# usage: run_seeded.sh <seeded-id> <property> [budget_s]
# applies /verif/seeded/<seeded-id>/patch.diff to /repo, runs the property's quick check with outputs in a scratch
# directory (nothing committed under /verif is overwritten), undoes the change, prints the verdict lines
set -u
ID=$1; PROP=$2; BUDGET=${3:-50}
HERE="$(cd "$(dirname "$0")/.." && pwd)"
OUT=/dev/shm/dsim-seeded-$ID
rm -rf "$OUT"; mkdir -p "$OUT"
git -C /repo diff --quiet || { echo "/repo is not clean"; exit 2; }
# patch.rebased.diff: the same change re-cut for the current tree when later fix commits touched the same lines
P="$HERE/seeded/$ID/patch.diff"; [ -f "$HERE/seeded/$ID/patch.rebased.diff" ] && P="$HERE/seeded/$ID/patch.rebased.diff"
git -C /repo apply "$P" || { echo "patch does not apply"; exit 2; }
DSIM_OUT="$OUT" DSIM_BUDGET_S=$BUDGET "$HERE/check" "$PROP" --tier quick > "$OUT/out.txt" 2>&1
RC=$?
git -C /repo checkout -- .
grep -E "^VIOLATION|^KNOWN|^$PROP:|violation " "$OUT/out.txt" | cut -c1-260
echo "exit=$RC"
cp "$OUT/out.txt" "$HERE/seeded/$ID/check-$PROP.log"
rm -rf "$OUT"
