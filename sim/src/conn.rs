//! A real connection on a simulated node: exactly what `PeerConnectionService::process_peer_message(NewConnection)`
//! builds (real `InboundQueryService`, `QueryService`, `LocalPeerService::start`, `RoomLockService`), with the
//! six channel ends, the peer-service mailbox and the local-event broadcast owned by the simulator.
use crate::node::{Hung, SimNode};
use discret::verif as dv;
use discret::verif::{
    Answer, ConnectionInfo, Event, InboundQueryService, LocalEvent, LocalPeerService, PeerConnectionMessage,
    PeerConnectionService, QueryProtocol, QueryService, RemoteEvent, RemotePeerHandle, RoomLockService, TokenType, Uid,
};
use std::collections::HashSet;
use std::sync::atomic::AtomicBool;
use std::sync::Arc;
use tokio::sync::{broadcast, mpsc, Mutex};

/// what the node told its peer service (recorded by the simulator, which owns the mailbox)
#[derive(Debug, Clone, PartialEq)]
pub enum PeerNote {
    Connected(Vec<u8>, Uid),
    Disconnected(Vec<u8>, [u8; 32], Uid),
    InviteAccepted(String, Vec<u8>),
    NewPeer(usize),
    ValidateHardware([u8; 32]),
    Other(&'static str),
}

/// per node: peer-service mailbox, lock service, local-event broadcast
pub struct Host {
    pub ps: PeerConnectionService,
    pub ps_rx: mpsc::Receiver<PeerConnectionMessage>,
    pub lock: RoomLockService,
    pub local_events: broadcast::Sender<LocalEvent>,
    pub notes: Vec<PeerNote>,
    pub events: Vec<Event>,
    /// accepted invitations waiting to be handed to the node's real PeerManager (token used, peer row)
    pub invites_accepted: Vec<(TokenType, dv::Node)>,
}

impl Host {
    pub fn new(node: &SimNode, max_locks: usize) -> Host {
        node.activate();
        let (tx, rx) = mpsc::channel(4096);
        let (local_events, _) = broadcast::channel(256);
        let lock = {
            let _g = node.rt().enter();
            RoomLockService::start(max_locks)
        };
        Host { ps: PeerConnectionService { sender: tx }, ps_rx: rx, lock, local_events, notes: vec![], events: vec![], invites_accepted: vec![] }
    }

    /// what `PeerConnectionService`'s loop does between messages: forward database events to the connections as
    /// local events, and answer hardware validation. Returns true if something was forwarded.
    pub fn pump(&mut self, node: &mut SimNode) -> Result<bool, Hung> {
        let mut any = false;
        for e in node.drain_events() {
            match &e {
                Event::DataChanged(dm) => {
                    let mut rooms = vec![];
                    for r in dm.rooms.keys() {
                        if let Ok(u) = dv::uid_decode(r) {
                            rooms.push(u);
                        }
                    }
                    let _ = self.local_events.send(LocalEvent::RoomDataChanged(rooms));
                    any = true;
                }
                Event::RoomModified(room) => {
                    let _ = self.local_events.send(LocalEvent::RoomDefinitionChanged(room.clone()));
                    any = true;
                }
                _ => {}
            }
            self.events.push(e);
        }
        while let Ok(m) = self.ps_rx.try_recv() {
            any = true;
            match m {
                PeerConnectionMessage::PeerConnected(k, id) => self.notes.push(PeerNote::Connected(k, id)),
                PeerConnectionMessage::PeerDisconnected(k, c, id) => self.notes.push(PeerNote::Disconnected(k, c, id)),
                PeerConnectionMessage::InviteAccepted(t, peer) => {
                    let kind = match t {
                        TokenType::AllowedPeer(_) => "allowed",
                        TokenType::OwnedInvite(_) => "owned-invite",
                        TokenType::Invite(_) => "invite",
                    };
                    self.notes.push(PeerNote::InviteAccepted(kind.to_string(), peer.verifying_key.clone()));
                    self.invites_accepted.push((t, peer));
                }
                PeerConnectionMessage::NewPeer(p) => self.notes.push(PeerNote::NewPeer(p.len())),
                PeerConnectionMessage::ValidateHardware(c, _fp, reply) => {
                    self.notes.push(PeerNote::ValidateHardware(c));
                    let _ = reply.send(Ok(true));
                }
                _ => self.notes.push(PeerNote::Other("other")),
            }
        }
        if any {
            node.settle()?;
        }
        Ok(any)
    }
}

/// the simulator's ends of one connection of a node
pub struct Conn {
    pub info: ConnectionInfo,
    pub circuit: [u8; 32],
    /// requests the simulator (as the remote peer) sends to the node's serving side
    pub q_to_node: Option<mpsc::Sender<QueryProtocol>>,
    /// the node's answers to them
    pub a_from_node: mpsc::Receiver<Answer>,
    /// the node's own requests (identity challenge, room list, pulls)
    pub q_from_node: mpsc::Receiver<QueryProtocol>,
    /// the answers the simulator gives to them
    pub a_to_node: Option<mpsc::Sender<Answer>>,
    pub ev_from_node: mpsc::Receiver<RemoteEvent>,
    pub ev_to_node: Option<mpsc::Sender<RemoteEvent>>,
    /// the key the node has bound to this connection (empty until the proof succeeds)
    pub remote_key: Arc<Mutex<Vec<u8>>>,
    pub ready: Arc<AtomicBool>,
    pub next_id: u64,
}

impl Conn {
    /// build the connection as `NewConnection` does
    pub fn open(node: &mut SimNode, host: &Host, token: TokenType, conn_no: u8, peer_key_hint: Vec<u8>) -> Conn {
        node.activate();
        let (answer_sender, a_from_node) = mpsc::channel::<Answer>(1 << 14);
        let (a_to_node, answer_receiver) = mpsc::channel::<Answer>(1 << 10);
        let (query_sender, q_from_node) = mpsc::channel::<QueryProtocol>(1 << 10);
        let (q_to_node, query_receiver) = mpsc::channel::<QueryProtocol>(1 << 10);
        let (event_sender, ev_from_node) = mpsc::channel::<RemoteEvent>(1 << 10);
        let (ev_to_node, event_receiver) = mpsc::channel::<RemoteEvent>(1 << 10);
        let mut endpoint_id = [0u8; 16];
        endpoint_id[0] = node.idx as u8 + 1;
        let mut remote_id = [0u8; 16];
        remote_id[0] = 0x80 + conn_no;
        let mut conn_id = [0u8; 16];
        conn_id[0] = 0xC0;
        conn_id[1] = conn_no;
        conn_id[2] = node.idx as u8;
        let info = ConnectionInfo { endpoint_id, remote_id, conn_id, meeting_token: [conn_no; 7], peer_verifying_key: peer_key_hint };
        let circuit = dv::PeerManager::circuit_id(endpoint_id, remote_id);
        let remote_key: Arc<Mutex<Vec<u8>>> = Arc::new(Mutex::new(Vec::new()));
        let ready = Arc::new(AtomicBool::new(true));
        let services = node.services.clone().expect("node down");
        let _g = node.rt().enter();
        let inbound = InboundQueryService::start(
            dv::HardwareFingerprint { id: [7; 16], name: "dsim".into() },
            circuit,
            conn_id,
            RemotePeerHandle { db: services.database.clone(), allowed_room: HashSet::new(), verifying_key: node.vk.clone(), reply: answer_sender },
            query_receiver,
            host.ps.clone(),
            remote_key.clone(),
            ready.clone(),
        );
        let qs = QueryService::start(query_sender, answer_receiver);
        LocalPeerService::start(
            event_receiver,
            host.local_events.subscribe(),
            circuit,
            info.clone(),
            node.vk.clone(),
            token,
            remote_key.clone(),
            ready.clone(),
            host.lock.clone(),
            qs,
            event_sender,
            host.ps.clone(),
            inbound,
            &services,
        );
        Conn {
            info,
            circuit,
            q_to_node: Some(q_to_node),
            a_from_node,
            q_from_node,
            a_to_node: Some(a_to_node),
            ev_from_node,
            ev_to_node: Some(ev_to_node),
            remote_key,
            ready,
            next_id: 1000,
        }
    }

    /// close every channel end the simulator holds (the remote peer disappears)
    pub fn close(&mut self) {
        self.q_to_node = None;
        self.a_to_node = None;
        self.ev_to_node = None;
        self.a_from_node.close();
        self.q_from_node.close();
        self.ev_from_node.close();
    }

    pub fn bound_key(&self, node: &mut SimNode) -> Vec<u8> {
        let k = self.remote_key.clone();
        node.run(async move { k.lock().await.clone() }).unwrap_or_default()
    }

    /// send one request to the node's serving side and collect every answer to it
    pub fn ask(&mut self, node: &mut SimNode, query: dv::SyncQuery) -> Result<Vec<Answer>, Hung> {
        let id = self.next_id;
        self.next_id += 1;
        if let Some(tx) = self.q_to_node.clone() {
            let _ = node.run(async move { tx.send(QueryProtocol { id, query }).await.is_ok() })?;
        }
        node.settle()?;
        let mut out = vec![];
        while let Ok(a) = self.a_from_node.try_recv() {
            if a.id == id {
                out.push(a);
            }
        }
        Ok(out)
    }

    pub fn send_event(&mut self, node: &mut SimNode, ev: RemoteEvent) -> Result<(), Hung> {
        if let Some(tx) = self.ev_to_node.clone() {
            let _ = node.run(async move { tx.send(ev).await.is_ok() })?;
        }
        Ok(())
    }

    pub fn answer(&mut self, node: &mut SimNode, a: Answer) -> Result<(), Hung> {
        if let Some(tx) = self.a_to_node.clone() {
            let _ = node.run(async move { tx.send(a).await.is_ok() })?;
        }
        Ok(())
    }

    pub fn take_queries(&mut self) -> Vec<QueryProtocol> {
        let mut v = vec![];
        while let Ok(q) = self.q_from_node.try_recv() {
            v.push(q);
        }
        v
    }
    pub fn take_events(&mut self) -> Vec<RemoteEvent> {
        let mut v = vec![];
        while let Ok(e) = self.ev_from_node.try_recv() {
            v.push(e);
        }
        v
    }
}

pub fn ok_answer<T: serde::Serialize>(id: u64, complete: bool, v: &T) -> Answer {
    Answer { id, success: true, complete, serialized: bincode::serialize(v).unwrap_or_default() }
}
pub fn err_answer(id: u64) -> Answer {
    Answer { id, success: false, complete: true, serialized: bincode::serialize(&dv::errors::SyncError::RemoteTechnical("dsim".into())).unwrap_or_default() }
}
