//! A simulated discret node: real database service, reader/writer/verifier threads,
//! authorisation actor and event service on its own current-thread paused tokio runtime.
//! The harness thread is the only thread that ever runs the node's async code.
use discret::verif as dv;
use discret::verif::{
    Configuration, DiscretServices, Event, EventService, GraphDatabaseService, Parameters,
    SignatureVerificationService, Uid,
};
use std::future::Future;
use std::path::PathBuf;
use std::time::{Duration, Instant};
use tokio::runtime::Runtime;
use tokio::sync::broadcast;
use tokio::task::JoinHandle;

pub const APP: &str = "dsim app";

#[derive(Debug, Clone, PartialEq)]
pub enum Hung {
    Settle,
    Run,
    /// a helper thread of the node died (injected crash or panic)
    ThreadDied,
}

pub struct SimNode {
    pub idx: usize,
    pub name: String,
    pub km: [u8; 32],
    pub dir: PathBuf,
    pub model: String,
    pub cfg: Configuration,
    /// wall clock of this node (ms since epoch); installed in the H2 hook whenever the node runs
    pub clock: i64,
    pub clock_start: i64,
    pub tokio_seed: u64,
    rt: Option<Runtime>,
    pub db: Option<GraphDatabaseService>,
    pub vk: Vec<u8>,
    pub private_room: Uid,
    pub services: Option<DiscretServices>,
    pub events: Option<broadcast::Receiver<Event>>,
    /// events taken from the 16-slot broadcast while the node runs (the subscriber never lags behind the service)
    pub event_buf: Vec<Event>,
    /// events the broadcast dropped before the harness could read them (should stay 0)
    pub events_lagged: u64,
    pub starts: u32,
    pub settle_turns: u64,
    /// helper threads alive right after start (reader(s) + writer + verifier)
    pub expected_threads: isize,
}

/// wall-clock limit for one settle / run before the harness declares the node hung
pub fn hang_limit() -> Duration {
    Duration::from_secs(
        std::env::var("DSIM_HANG_S")
            .ok()
            .and_then(|s| s.parse().ok())
            .unwrap_or(20),
    )
}

fn new_rt(seed: u64) -> Runtime {
    tokio::runtime::Builder::new_current_thread()
        .enable_all()
        .start_paused(true)
        .rng_seed(tokio::runtime::RngSeed::from_bytes(&seed.to_le_bytes()))
        .build()
        .unwrap()
}

impl SimNode {
    pub fn new(
        idx: usize,
        name: &str,
        km_byte: u8,
        root: &PathBuf,
        model: &str,
        cfg: Configuration,
        clock: i64,
        tokio_seed: u64,
    ) -> Self {
        let mut dir = root.clone();
        dir.push(name);
        let mut km = [km_byte; 32];
        km[0] = km_byte.wrapping_add(17);
        SimNode {
            idx,
            name: name.to_string(),
            km,
            dir,
            model: model.to_string(),
            cfg,
            clock,
            clock_start: clock,
            tokio_seed,
            rt: None,
            db: None,
            vk: vec![],
            private_room: [0; 16],
            services: None,
            events: None,
            event_buf: vec![],
            events_lagged: 0,
            starts: 0,
            settle_turns: 0,
            expected_threads: 0,
        }
    }

    pub fn is_up(&self) -> bool {
        self.rt.is_some() && self.db.is_some()
    }

    /// install this node's identity and wall clock in the process-global hooks
    pub fn activate(&self) {
        dv::set_cur(self.idx);
        dv::set_clock(self.clock);
    }

    pub fn advance_clock(&mut self, by: i64) {
        self.clock += by;
    }

    /// start (or restart) the node on its directory
    pub fn start(&mut self) -> Result<(), String> {
        assert!(self.rt.is_none());
        std::fs::create_dir_all(&self.dir).map_err(|e| e.to_string())?;
        self.activate();
        let rt = new_rt(self.tokio_seed.wrapping_add(self.starts as u64));
        self.starts += 1;
        let model = self.model.clone();
        let km = self.km;
        let dir = self.dir.clone();
        let cfg = self.cfg.clone();
        // the public key given to the database is the X25519 meeting key, derived as Discret::new derives it
        let pubk: [u8; 32] = *self.meeting_secret().public_key().as_bytes();
        let res = rt.block_on(async move {
            let h = tokio::spawn(async move {
                let ev = EventService::new();
                let sub = ev.subcribe().await;
                let r =
                    GraphDatabaseService::start(APP, &model, &km, &pubk, dir, &cfg, ev.clone())
                        .await;
                match r {
                    Ok((db, vk, room)) => {
                        let sv = DiscretServices {
                            events: ev.clone(),
                            database: db.clone(),
                            signature_verification: SignatureVerificationService::start(1),
                        };
                        Ok((db, vk, room, sub, sv))
                    }
                    Err(e) => Err(e.to_string()),
                }
            });
            let t0 = Instant::now();
            while !h.is_finished() {
                tokio::task::yield_now().await;
                std::thread::yield_now();
                if t0.elapsed() > hang_limit() {
                    return Err("start hung".to_string());
                }
            }
            h.await.map_err(|e| format!("start panicked: {e}"))?
        });
        match res {
            Ok((db, vk, room, sub, sv)) => {
                self.rt = Some(rt);
                self.db = Some(db);
                self.vk = vk;
                self.private_room = room;
                self.events = Some(sub);
                self.services = Some(sv);
                self.expected_threads = 0;
                let _ = self.settle();
                // reader thread(s) + writer thread + one signature verification thread; wait until all registered
                let want = self.cfg.parallelism as isize + 2;
                let t0 = Instant::now();
                while dv::live_threads(self.idx) < want && t0.elapsed() < Duration::from_secs(10) {
                    std::thread::sleep(Duration::from_micros(100));
                }
                self.expected_threads = want;
                Ok(())
            }
            Err(e) => {
                drop(rt);
                self.wait_threads();
                Err(e)
            }
        }
    }

    fn wait_threads(&self) {
        let t0 = Instant::now();
        while dv::live_threads(self.idx) > 0 && t0.elapsed() < Duration::from_secs(10) {
            std::thread::sleep(Duration::from_micros(200));
        }
        dv::inflight_reset(self.idx);
        dv::set_hold(self.idx, 0);
    }

    /// stop the node: every task and handle is dropped at once; helper threads exit.
    /// Returns the number of helper threads that did not exit in time (0 expected).
    pub fn stop(&mut self) -> isize {
        self.activate();
        self.db = None;
        self.services = None;
        self.events = None;
        if let Some(rt) = self.rt.take() {
            drop(rt);
        }
        self.wait_threads();
        dv::live_threads(self.idx)
    }

    pub fn rt(&self) -> &Runtime {
        self.rt.as_ref().expect("node is down")
    }

    fn quiescent(&self, m: &tokio::runtime::RuntimeMetrics, last: &mut u64) -> bool {
        let now = m.worker_poll_count(0);
        let q = dv::inflight_now(self.idx) == dv::held_now(self.idx) as isize
            && now == *last
            && m.global_queue_depth() == 0;
        *last = now;
        q
    }

    /// spin until the node is quiescent: nothing handed to a helper thread (except requests held in the
    /// batch gate), no task polled for 4 consecutive turns, injection queue empty
    pub fn settle(&mut self) -> Result<u64, Hung> {
        self.activate();
        let idx = self.idx;
        let expected = self.expected_threads;
        let mut rx = self.events.take();
        let mut got: Vec<Event> = vec![];
        let mut lagged = 0u64;
        let rt = self.rt.as_ref().expect("node is down");
        let r = rt.block_on(async {
            let m = tokio::runtime::Handle::current().metrics();
            let mut stable = 0;
            let mut last = m.worker_poll_count(0);
            let mut turns = 0u64;
            let t0 = Instant::now();
            loop {
                tokio::task::yield_now().await;
                if let Some(rx) = rx.as_mut() {
                    loop {
                        match rx.try_recv() {
                            Ok(e) => got.push(e),
                            Err(broadcast::error::TryRecvError::Lagged(n)) => lagged += n,
                            Err(_) => break,
                        }
                    }
                }
                turns += 1;
                let now = m.worker_poll_count(0);
                if dv::inflight_now(idx) == dv::held_now(idx) as isize
                    && now == last
                    && m.global_queue_depth() == 0
                {
                    stable += 1
                } else {
                    stable = 0
                }
                last = now;
                if stable >= 4 {
                    return Ok(turns);
                }
                std::thread::yield_now();
                if expected > 0 && dv::live_threads(idx) < expected {
                    // let the consequences of the death (closed channels) propagate, then report
                    for _ in 0..16 {
                        tokio::task::yield_now().await;
                    }
                    return Err(Hung::ThreadDied);
                }
                if turns % 1024 == 0 && t0.elapsed() > hang_limit() {
                    return Err(Hung::Settle);
                }
            }
        });
        self.events = rx;
        self.event_buf.append(&mut got);
        self.events_lagged += lagged;
        if let Ok(t) = r {
            self.settle_turns += t;
        }
        r
    }

    /// run a future to completion on this node, then settle. `None` if it did not complete.
    pub fn run<T: Send + 'static>(
        &mut self,
        fut: impl Future<Output = T> + Send + 'static,
    ) -> Result<T, Hung> {
        self.activate();
        let idx = self.idx;
        let expected = self.expected_threads;
        let mut rx = self.events.take();
        let got: std::sync::Arc<std::sync::Mutex<(Vec<Event>, u64)>> = Default::default();
        let got2 = got.clone();
        let rx_back: std::sync::Arc<std::sync::Mutex<Option<broadcast::Receiver<Event>>>> = Default::default();
        let rx_back2 = rx_back.clone();
        let rt = self.rt.as_ref().expect("node is down");
        let r = rt.block_on(async move {
            // whatever the way out, the subscriber goes back to the node
            struct GiveBack(Option<broadcast::Receiver<Event>>, std::sync::Arc<std::sync::Mutex<Option<broadcast::Receiver<Event>>>>);
            impl Drop for GiveBack {
                fn drop(&mut self) {
                    *self.1.lock().unwrap() = self.0.take();
                }
            }
            let mut keep = GiveBack(rx.take(), rx_back2);
            let h = tokio::spawn(fut);
            let t0 = Instant::now();
            let mut turns = 0u64;
            while !h.is_finished() {
                tokio::task::yield_now().await;
                if let Some(rx) = keep.0.as_mut() {
                    let mut g = got2.lock().unwrap();
                    loop {
                        match rx.try_recv() {
                            Ok(e) => g.0.push(e),
                            Err(broadcast::error::TryRecvError::Lagged(n)) => g.1 += n,
                            Err(_) => break,
                        }
                    }
                }
                std::thread::yield_now();
                turns += 1;
                if expected > 0 && dv::live_threads(idx) < expected {
                    for _ in 0..64 {
                        tokio::task::yield_now().await;
                        if h.is_finished() {
                            break;
                        }
                    }
                    if !h.is_finished() {
                        h.abort();
                        return Err(Hung::ThreadDied);
                    }
                    break;
                }
                if turns % 1024 == 0 && t0.elapsed() > hang_limit() {
                    h.abort();
                    return Err(Hung::Run);
                }
            }
            match h.await {
                Ok(v) => Ok(v),
                Err(_) => Err(Hung::Run),
            }
        });
        self.events = rx_back.lock().unwrap().take();
        {
            let mut g = got.lock().unwrap();
            self.event_buf.append(&mut g.0);
            self.events_lagged += g.1;
        }
        match r {
            Ok(v) => {
                self.settle()?;
                Ok(v)
            }
            Err(e) => Err(e),
        }
    }

    /// spawn a task on this node without waiting for it
    pub fn spawn<T: Send + 'static>(
        &self,
        fut: impl Future<Output = T> + Send + 'static,
    ) -> JoinHandle<T> {
        self.activate();
        let _g = self.rt().enter();
        tokio::spawn(fut)
    }

    /// advance this node's tokio clock (timers: query timeouts, intervals)
    pub fn advance_timers(&mut self, d: Duration) -> Result<(), Hung> {
        self.activate();
        let rt = self.rt.as_ref().expect("node is down");
        rt.block_on(async move {
            tokio::time::advance(d).await;
        });
        self.settle().map(|_| ())
    }

    pub fn dbh(&self) -> GraphDatabaseService {
        self.db.clone().expect("node is down")
    }

    pub fn mutate(&mut self, q: &str, params_json: Option<&str>) -> Result<String, String> {
        let db = self.dbh();
        let q = q.to_string();
        let p = match params_json {
            Some(j) => Some(Parameters::from_json(j).map_err(|e| format!("params: {e}"))?),
            None => None,
        };
        match self.run(async move { db.mutate(&q, p).await.map_err(|e| e.to_string()) }) {
            Ok(r) => r,
            Err(h) => Err(format!("HUNG {h:?}")),
        }
    }

    pub fn query(&mut self, q: &str, params_json: Option<&str>) -> Result<String, String> {
        let db = self.dbh();
        let q = q.to_string();
        let p = match params_json {
            Some(j) => Some(Parameters::from_json(j).map_err(|e| format!("params: {e}"))?),
            None => None,
        };
        match self.run(async move { db.query(&q, p).await.map_err(|e| e.to_string()) }) {
            Ok(r) => r,
            Err(h) => Err(format!("HUNG {h:?}")),
        }
    }

    pub fn delete(&mut self, q: &str, params_json: Option<&str>) -> Result<(), String> {
        let db = self.dbh();
        let q = q.to_string();
        let p = match params_json {
            Some(j) => Some(Parameters::from_json(j).map_err(|e| format!("params: {e}"))?),
            None => None,
        };
        match self.run(async move { db.delete(&q, p).await.map(|_| ()).map_err(|e| e.to_string()) })
        {
            Ok(r) => r,
            Err(h) => Err(format!("HUNG {h:?}")),
        }
    }

    pub fn compute_daily_log(&mut self) -> Result<(), Hung> {
        let db = self.dbh();
        self.run(async move { db.compute_daily_log().await })
    }

    pub fn drain_events(&mut self) -> Vec<Event> {
        let mut v = std::mem::take(&mut self.event_buf);
        if let Some(rx) = self.events.as_mut() {
            loop {
                match rx.try_recv() {
                    Ok(e) => v.push(e),
                    Err(broadcast::error::TryRecvError::Lagged(n)) => self.events_lagged += n,
                    Err(_) => break,
                }
            }
        }
        v
    }

    /// path of the SQLCipher file, derived as the code derives it
    pub fn db_path(&self) -> PathBuf {
        let signature_key = dv::derive_key(&format!("{} SIGNING_KEY", APP), &self.km);
        let database_secret = dv::derive_key("DATABASE_SECRET", &signature_key);
        let database_key = dv::derive_key("DATABASE_NAME", &database_secret);
        let name = dv::base64_encode(&database_key);
        let mut p = self.dir.clone();
        p.push(&name[0..2]);
        p.push(name);
        p
    }
    pub fn db_secret(&self) -> [u8; 32] {
        let signature_key = dv::derive_key(&format!("{} SIGNING_KEY", APP), &self.km);
        dv::derive_key("DATABASE_SECRET", &signature_key)
    }
    pub fn signing_key(&self) -> dv::Ed25519SigningKey {
        let signature_key = dv::derive_key(&format!("{} SIGNING_KEY", APP), &self.km);
        dv::Ed25519SigningKey::create_from(&signature_key)
    }

    pub fn meeting_secret(&self) -> dv::MeetingSecret {
        let k = dv::derive_key(&format!("{}{}", "MEETING_SECRET", APP), &self.km);
        dv::MeetingSecret::new(k)
    }

    /// run a (possibly non-Send, borrowing) future to completion on this node; the root future never parks,
    /// so the paused clock cannot auto-advance while helper threads work
    pub fn drive<F: Future>(&mut self, fut: F) -> Result<F::Output, Hung> {
        self.activate();
        let rt = self.rt.as_ref().expect("node is down");
        let r = rt.block_on(async move {
            tokio::pin!(fut);
            let t0 = Instant::now();
            let mut turns = 0u64;
            loop {
                tokio::select! {
                    biased;
                    v = &mut fut => return Ok(v),
                    _ = tokio::task::yield_now() => {}
                }
                std::thread::yield_now();
                turns += 1;
                if turns % 1024 == 0 && t0.elapsed() > hang_limit() {
                    return Err(Hung::Run);
                }
            }
        });
        match r {
            Ok(v) => {
                self.settle()?;
                Ok(v)
            }
            Err(e) => Err(e),
        }
    }

    /// a read-only connection for oracles (opened after a settle)
    pub fn oracle_conn(&self) -> Result<rusqlite::Connection, String> {
        let conn = dv::create_connection(&self.db_path(), &self.db_secret(), 512, false)
            .map_err(|e| e.to_string())?;
        conn.pragma_update(None, "query_only", "1")
            .map_err(|e| e.to_string())?;
        Ok(conn)
    }
}

impl Drop for SimNode {
    fn drop(&mut self) {
        if self.rt.is_some() {
            self.stop();
        }
    }
}
