//! Engine `chaos` (C14): hostile inputs are the injected faults. A live node receives data-model texts, queries,
//! mutations, deletions and parameter sets (generated from the grammar over a model full of awkward identifiers, then
//! mutated), hostile answers while it pulls from a peer and hostile requests on its serving side. After every input
//! the health oracle runs: no panic anywhere in the process, every service thread alive, no hang, and a fixed probe
//! mutation + query + signature verification answered normally. A request the parser accepts must never be rejected
//! by the storage engine.
use crate::kit::{Rng, DAY_MS, T0};
use crate::net::{ServerSide, Session, SessionEnd};
use crate::node::SimNode;
use crate::world::{Trace, World};
use discret::verif as dv;
use discret::verif::{Answer, SyncQuery, Uid};
use serde::{Deserialize, Serialize};
use std::cell::RefCell;
use std::collections::HashSet;
use std::rc::Rc;

const BASE_MODEL: &str = "Probe{ name:String, n:Integer nullable, others:[Probe] }";

/// identifiers the grammar allows: storage-engine keywords, language keywords, digits first, Unicode letters
const NAMES: [&str; 56] = [
    "group", "order", "select", "from", "where", "table", "index", "values", "null", "by", "desc", "asc", "limit", "as", "on",
    "join", "and", "or", "not", "key", "primary", "default", "check", "unique", "exists", "case", "when", "then", "else", "end",
    "in", "is", "like", "between", "1a", "9", "_", "__", "é", "名前", "ß", "Ünï", "a_b", "json", "text", "rowid", "count", "avg",
    "first", "skip", "search", "nullable", "before", "after", "true", "query",
];

#[derive(Clone, Debug, Serialize, Deserialize)]
pub struct FieldC {
    pub name: String,
    /// 0 Integer, 1 Float, 2 Boolean, 3 String, 4 Base64, 5 Json, 6 entity, 7 array
    pub ty: u8,
    pub nullable: bool,
    pub default: bool,
    pub target: usize,
}
#[derive(Clone, Debug, Serialize, Deserialize)]
pub struct EntityC {
    pub name: String,
    pub fields: Vec<FieldC>,
    /// an index declared on this (scalar) field
    #[serde(default)]
    pub index: Option<String>,
}
pub type ModelC = Vec<EntityC>;

fn scalar_name(ty: u8) -> &'static str {
    ["Integer", "Float", "Boolean", "String", "Base64", "Json"][ty as usize]
}

pub fn render(m: &ModelC) -> String {
    let mut s = format!("{{ {BASE_MODEL} ");
    for e in m {
        s.push_str(&format!("{} {{ ", e.name));
        for (i, f) in e.fields.iter().enumerate() {
            if i > 0 {
                s.push_str(", ");
            }
            match f.ty {
                6 => s.push_str(&format!("{}: {} nullable", f.name, m[f.target].name)),
                7 => s.push_str(&format!("{}: [{}]", f.name, m[f.target].name)),
                t => {
                    let opt = if f.nullable {
                        " nullable".to_string()
                    } else if f.default {
                        format!(
                            " default {}",
                            match t {
                                0 => "7",
                                1 => "1.5",
                                2 => "true",
                                3 => ["\"d\"", "\"it's\"", "\"\"", "\"a \\\"q\\\" b\""][f.target % 4],
                                4 => "\"AQID\"",
                                _ => ["\"{}\"", "\"[1,2]\"", "\"{\\\"a\\\":\\\"it's\\\"}\""][f.target % 3],
                            }
                        )
                    } else {
                        String::new()
                    };
                    s.push_str(&format!("{}: {}{}", f.name, scalar_name(t), opt));
                }
            }
        }
        if let Some(ix) = &e.index {
            s.push_str(&format!(", index({ix})"));
        }
        s.push_str(" } ");
    }
    s.push('}');
    s
}

fn gen_model(r: &mut Rng) -> ModelC {
    let ne = 2 + r.usize(3);
    let mut names: Vec<&str> = NAMES.to_vec();
    r.shuffle(&mut names);
    let mut used: HashSet<String> = HashSet::new();
    let mut take = |r: &mut Rng, used: &mut HashSet<String>| -> String {
        loop {
            let n = names[r.usize(names.len())].to_string();
            let n = if r.chance(1, 6) { format!("{n}{}", r.usize(10)) } else { n };
            if used.insert(n.to_lowercase()) {
                return n;
            }
        }
    };
    let mut m: ModelC = vec![];
    for _ in 0..ne {
        let name = take(r, &mut used);
        m.push(EntityC { name, fields: vec![], index: None });
    }
    for i in 0..ne {
        let nf = 2 + r.usize(5);
        let mut fused: HashSet<String> = HashSet::new();
        for k in 0..nf {
            let name = take(r, &mut fused);
            let ty = if k == 0 { 3 } else { r.usize(8) as u8 };
            let (nullable, default) = match r.usize(3) {
                0 => (true, false),
                1 if ty <= 5 => (false, true),
                _ => (false, false),
            };
            m[i].fields.push(FieldC { name, ty, nullable: nullable && ty < 6, default: default && ty < 6, target: if ty >= 6 { r.usize(ne) } else { r.usize(12) } });
        }
    }
    m
}

#[derive(Clone, Debug, Serialize, Deserialize)]
pub struct Cfg {
    pub model: ModelC,
}

#[derive(Clone, Debug, Serialize, Deserialize)]
#[serde(tag = "t")]
pub enum Step {
    /// data model update; `valid` = built as a valid extension of the running model
    Model {
        text: String,
        valid: bool,
        shape: String,
        /// the model this text renders, when it is a valid evolution of the running one
        #[serde(default)]
        evolved: Option<ModelC>,
    },
    /// api: query | mutate | delete. In `params`, the strings "@ROOM" and "@ID:<entity index>" are replaced at run time
    Req { api: String, text: String, params: Option<String>, valid: bool, shape: String },
    /// the victim pulls from the peer, whose answers of kind `kind` are replaced following `variant`
    PeerAnswer { kind: String, variant: String },
    /// a hostile request on the victim's serving side
    PeerRequest { variant: String },
    Restart,
    /// a fresh instance is started with this data model text
    StartWith { text: String, shape: String },
}

// ------------------------------------------------------------------------------------------------ generation

fn esc(s: &str) -> String {
    let mut o = String::new();
    for c in s.chars() {
        match c {
            '"' => o.push_str("\\\""),
            '\\' => o.push_str("\\\\"),
            '\n' => o.push_str("\\n"),
            '\t' => o.push_str("\\t"),
            c => o.push(c),
        }
    }
    o
}

const STRINGS: [&str; 12] = ["", "x", "it's", "say \"hi\"", "é名🦀", "back\\slash", "%_", "NULL", "'; DROP TABLE _node;--", "a\nb", "\u{0}", "ﬁ"];
const JSONS: [&str; 9] = ["{}", "[]", "null", "1", "\"s\"", "{\"a\":{\"b\":[1,2,{\"c\":null}]}}", "[1,\"two\",[3]]", "{\"it's\":\"q\\\"uote\"}", "{\"a\":1e308}"];

fn lit(r: &mut Rng, ty: u8) -> serde_json::Value {
    use serde_json::json;
    match ty {
        0 => json!(*r.pick(&[0i64, -1, 42, i64::MAX, i64::MIN])),
        1 => json!(*r.pick(&[0.0f64, -1.5, 3.25, 1e300, -1e-300])),
        2 => json!(r.chance(1, 2)),
        3 => json!(if r.chance(1, 10) { "y".repeat(300) } else { r.pick(&STRINGS).to_string() }),
        4 => json!(dv::base64_encode(&vec![r.usize(256) as u8; r.usize(5)])),
        _ => json!(r.pick(&JSONS).to_string()),
    }
}

fn lit_text(v: &serde_json::Value) -> String {
    match v {
        serde_json::Value::String(s) => format!("\"{}\"", esc(s)),
        serde_json::Value::Number(n) if n.is_f64() => {
            let s = format!("{}", n);
            // the grammar wants digits '.' digits for a float
            if s.contains('e') || s.contains("inf") || s.contains("NaN") {
                "1.5".to_string()
            } else if s.contains('.') {
                s
            } else {
                format!("{s}.0")
            }
        }
        v => v.to_string(),
    }
}

/// a creation of entity `ei`: returns (fields text, params)
fn gen_fields(r: &mut Rng, m: &ModelC, ei: usize, depth: usize, params: &mut serde_json::Map<String, serde_json::Value>, pc: &mut usize, nulls: bool) -> String {
    let mut s = String::new();
    for f in &m[ei].fields {
        let required = !f.nullable && !f.default && f.ty < 6;
        if !required && r.chance(1, 3) {
            continue;
        }
        match f.ty {
            6 | 7 => {
                if depth >= 1 || r.chance(1, 2) {
                    continue;
                }
                let inner = gen_fields(r, m, f.target, depth + 1, params, pc, nulls);
                if inner.trim().is_empty() {
                    continue;
                }
                if f.ty == 6 {
                    s.push_str(&format!(" {}: {{ {inner} }}", f.name));
                } else {
                    s.push_str(&format!(" {}: [{{ {inner} }}]", f.name));
                }
            }
            t => {
                let v = if nulls && f.nullable && r.chance(1, 2) { serde_json::Value::Null } else { lit(r, t) };
                if r.chance(1, 2) {
                    *pc += 1;
                    let p = format!("p{pc}");
                    params.insert(p.clone(), v);
                    s.push_str(&format!(" {}: ${p}", f.name));
                } else {
                    s.push_str(&format!(" {}: {}", f.name, lit_text(&v)));
                }
            }
        }
    }
    s
}

fn gen_request(r: &mut Rng, m: &ModelC) -> Step {
    use serde_json::json;
    let ei = r.usize(m.len());
    let e = &m[ei];
    let mut params = serde_json::Map::new();
    let mut pc = 0usize;
    let scalars: Vec<&FieldC> = e.fields.iter().filter(|f| f.ty < 6).collect();
    match r.weighted(&[30, 12, 40, 8, 10]) {
        0 => {
            let body = gen_fields(r, m, ei, 0, &mut params, &mut pc, true);
            params.insert("r".into(), json!("@ROOM"));
            Step::Req { api: "mutate".into(), text: format!("mutate {{ {} {{ room_id:$r {body} }} }}", e.name), params: Some(serde_json::Value::Object(params).to_string()), valid: true, shape: "create".into() }
        }
        1 => {
            let f = scalars[r.usize(scalars.len())];
            let v = if f.nullable && r.chance(1, 2) { serde_json::Value::Null } else { lit(r, f.ty) };
            params.insert("id".into(), json!(format!("@ID:{ei}")));
            params.insert("v".into(), v);
            Step::Req { api: "mutate".into(), text: format!("mutate {{ {} {{ id:$id {}:$v }} }}", e.name, f.name), params: Some(serde_json::Value::Object(params).to_string()), valid: true, shape: format!("update-{}", if f.nullable { "nullable" } else { "plain" }) }
        }
        2 => {
            // query: parameters of the entity, then a selection
            let mut ps: Vec<String> = vec![];
            let mut shape: Vec<&str> = vec![];
            let str_fields: Vec<&&FieldC> = scalars.iter().filter(|f| f.ty == 3).collect();
            let mut searching = false;
            if !str_fields.is_empty() && r.chance(1, 6) {
                ps.push(format!("search(\"{}\")", esc(*r.pick(&["x", "it's", "\"", "é", "a b", "NULL", "*", "a*", "-x", "AND", "("]))));
                shape.push("search");
                searching = true;
            }
            for _ in 0..r.usize(3) {
                let f = scalars[r.usize(scalars.len())];
                let op = *r.pick(&["=", "!=", ">", ">=", "<", "<="]);
                if f.ty == 5 {
                    let t = r.usize(4) as u8;
                    ps.push(format!("{}->$.a {op} {}", f.name, lit_text(&lit(r, t))));
                    shape.push("json-filter");
                } else if f.nullable && r.chance(1, 3) {
                    ps.push(format!("{} {} null", f.name, r.pick(&["=", "!="])));
                    shape.push("null-filter");
                } else if r.chance(1, 3) {
                    pc += 1;
                    params.insert(format!("p{pc}"), lit(r, f.ty));
                    ps.push(format!("{} {op} $p{pc}", f.name));
                    shape.push("filter-var");
                } else {
                    ps.push(format!("{} {op} {}", f.name, lit_text(&lit(r, f.ty))));
                    shape.push("filter");
                }
            }
            let mut ordered: Vec<&FieldC> = vec![];
            if !searching && r.chance(1, 2) {
                let k = 1 + r.usize(2);
                let mut o = vec![];
                for _ in 0..k {
                    let f = scalars[r.usize(scalars.len())];
                    if f.ty == 5 || f.ty == 4 || ordered.iter().any(|x| x.name == f.name) {
                        continue;
                    }
                    ordered.push(f);
                    o.push(format!("{} {}", f.name, r.pick(&["asc", "desc"])));
                }
                if !o.is_empty() {
                    ps.push(format!("order_by({})", o.join(",")));
                    shape.push("order");
                    if r.chance(1, 2) {
                        let vals: Vec<String> = ordered.iter().map(|f| lit_text(&lit(r, f.ty))).collect();
                        ps.push(format!("{}({})", r.pick(&["before", "after"]), vals.join(",")));
                        shape.push("paging");
                    }
                }
            }
            if r.chance(1, 3) {
                ps.push(format!("first {}", r.pick(&["0", "1", "10", "99999999999"])));
                shape.push("first");
            }
            if r.chance(1, 4) {
                ps.push(format!("skip {}", r.pick(&["0", "1", "7"])));
                shape.push("skip");
            }
            let refs: Vec<&FieldC> = e.fields.iter().filter(|f| f.ty >= 6).collect();
            if !refs.is_empty() && r.chance(1, 3) {
                ps.push(format!("nullable({})", refs[r.usize(refs.len())].name));
                shape.push("nullable");
            }
            // selection
            let mut sel: Vec<String> = vec![];
            if r.chance(1, 5) {
                // aggregate selection
                sel.push(format!("{}: count()", r.pick(&NAMES)));
                let nums: Vec<&&FieldC> = scalars.iter().filter(|f| f.ty <= 1).collect();
                if !nums.is_empty() {
                    let f = nums[r.usize(nums.len())];
                    sel.push(format!("{}: {}({})", r.pick(&NAMES), r.pick(&["avg", "max", "min", "sum"]), f.name));
                }
                if r.chance(1, 2) {
                    sel.push(scalars[0].name.clone());
                }
                shape.push("aggregate");
            } else {
                if r.chance(1, 2) {
                    sel.push("id".into());
                }
                for f in &e.fields {
                    if r.chance(1, 3) {
                        continue;
                    }
                    match f.ty {
                        6 | 7 => {
                            let t = &m[f.target];
                            let inner = if r.chance(1, 2) { "id".to_string() } else { t.fields[0].name.clone() };
                            let p = if f.ty == 7 && r.chance(1, 2) { "(first 2)" } else { "" };
                            sel.push(format!("{}{p} {{ {inner} }}", f.name));
                            shape.push("nested");
                        }
                        5 if r.chance(1, 2) => {
                            sel.push(format!("{}: {}->{}", r.pick(&NAMES), f.name, r.pick(&["$.a", "$.a.b[0]", "0", "$"])));
                            shape.push("json-select");
                        }
                        _ => {
                            if r.chance(1, 3) {
                                sel.push(format!("{}: {}", r.pick(&NAMES), f.name));
                                shape.push("alias");
                            } else {
                                sel.push(f.name.clone());
                            }
                        }
                    }
                }
                if sel.is_empty() {
                    sel.push(e.fields[0].name.clone());
                }
            }
            let alias = if r.chance(1, 4) { format!("{}: ", r.pick(&NAMES)) } else { String::new() };
            let p = if ps.is_empty() { String::new() } else { format!("({})", ps.join(", ")) };
            shape.sort();
            shape.dedup();
            Step::Req {
                api: "query".into(),
                text: format!("query {{ {alias}{} {p} {{ {} }} }}", e.name, sel.join(" ")),
                params: if params.is_empty() { None } else { Some(serde_json::Value::Object(params).to_string()) },
                valid: true,
                shape: format!("query:{}", shape.join("+")),
            }
        }
        3 => {
            params.insert("id".into(), json!(format!("@ID:{ei}")));
            let arrays: Vec<&FieldC> = e.fields.iter().filter(|f| f.ty == 7).collect();
            let arr = if !arrays.is_empty() && r.chance(1, 2) {
                let f = arrays[r.usize(arrays.len())];
                params.insert("t".into(), json!(format!("@ID:{}", f.target)));
                format!(" {}[$t]", f.name)
            } else {
                String::new()
            };
            Step::Req { api: "delete".into(), text: format!("delete {{ {} {{ $id{arr} }} }}", e.name), params: Some(serde_json::Value::Object(params).to_string()), valid: true, shape: if arr.is_empty() { "delete".into() } else { "delete-reference".into() } }
        }
        _ => {
            // every parameter kind against one field
            let f = scalars[r.usize(scalars.len())];
            let v = match r.usize(8) {
                0 => serde_json::Value::Null,
                1 => json!(true),
                2 => json!(12),
                3 => json!(1.5),
                4 => json!("text"),
                5 => json!("{\"a\":1}"),
                6 => json!(dv::base64_encode(&[1, 2, 3])),
                _ => json!("not json {"),
            };
            let kind = match &v {
                serde_json::Value::Null => "null",
                serde_json::Value::Bool(_) => "bool",
                serde_json::Value::Number(n) if n.is_f64() => "float",
                serde_json::Value::Number(_) => "int",
                _ => "string",
            };
            params.insert("v".into(), v);
            params.insert("r".into(), json!("@ROOM"));
            let body = gen_fields(r, m, ei, 1, &mut params, &mut pc, false);
            Step::Req {
                api: "mutate".into(),
                text: format!("mutate {{ {} {{ room_id:$r {body} {}:$v }} }}", e.name, f.name),
                params: Some(serde_json::Value::Object(params).to_string()),
                valid: false,
                shape: format!("param-{kind}-on-{}{}", scalar_name(f.ty), if f.nullable { "-nullable" } else { "" }),
            }
        }
    }
}

const HOSTILE: [&str; 24] = ["{", "}", "(", ")", "[", "]", ":", ",", "\"", "$", "\\", " ", "\u{0}", "\u{feff}", "é", "名", "🦀", "-", ".", ">", "->", "null", "$.", "'"];

fn mutate_text(r: &mut Rng, s: &str) -> String {
    let mut c: Vec<char> = s.chars().collect();
    for _ in 0..1 + r.usize(3) {
        if c.is_empty() {
            break;
        }
        let i = r.usize(c.len());
        match r.usize(6) {
            0 => {
                c.remove(i);
            }
            1 => {
                let x = c[i];
                c.insert(i, x);
            }
            2 => {
                let j = r.usize(c.len());
                c.swap(i, j);
            }
            3 => {
                for (k, ch) in r.pick(&HOSTILE).chars().enumerate() {
                    c.insert((i + k).min(c.len()), ch);
                }
            }
            4 => c.truncate(i),
            _ => {
                let w: Vec<char> = r.pick(&NAMES).chars().collect();
                for (k, ch) in w.into_iter().enumerate() {
                    c.insert((i + k).min(c.len()), ch);
                }
            }
        }
    }
    c.into_iter().collect()
}

/// requests on the system entities (valid and not)
const SYS_REQUESTS: [(&str, &str, &str); 12] = [
    ("query", "query { sys.Room { id mdate admin { verif_key enabled } authorisations { name rights { entity mutate_self mutate_all } users { verif_key enabled } user_admin { verif_key } } } }", "sys-room"),
    ("query", "query { sys.Peer { id pub_key name verifying_key } }", "sys-peer"),
    ("query", "query { sys.AllowedPeer { id peer { name } meeting_token status } }", "sys-allowed-peer"),
    ("query", "query { sys.AllowedHardware { id name status } }", "sys-hardware"),
    ("query", "query { sys.Room (order_by(mdate desc), first 1) { id room_id cdate mdate verifying_key _json } }", "sys-room-system-fields"),
    ("query", "query { sys.Authorisation { name } sys.UserAuth { verif_key } sys.EntityRight { entity } }", "sys-inner-entities"),
    ("mutate", "mutate { sys.Peer { name:\"x\" } }", "sys-peer-write"),
    ("mutate", "mutate { sys.AllowedPeer { status:\"enabled\" } }", "sys-allowed-peer-write"),
    ("mutate", "mutate { sys.Room { id:$r admin:[{verif_key:\"not a key\"}] } }", "sys-room-bad-key"),
    ("mutate", "mutate { sys.Room { id:$r authorisations:[{ name:\"g\" rights:[{entity:\"Nope\" mutate_self:true mutate_all:true}] }] } }", "sys-room-unknown-entity"),
    ("mutate", "mutate { sys.Room { id:$r authorisations:[{ id:$r name:\"g\" }] } }", "sys-room-wrong-group-id"),
    ("delete", "delete { sys.Room { $r } }", "sys-room-delete"),
];
const HOSTILE_PARAMS: [&str; 12] = [
    "[]", "null", "\"text\"", "{\"r\":{\"nested\":1}}", "{\"r\":[1,2]}", "{\"r\":1e999}", "{\"r\":18446744073709551616}", "{\"r\":\"\\u0000\"}", "{\"r\":\"@ROOM\",\"r\":1}",
    "{\"\":\"x\"}", "{\"r\":\"not base64 !!\"}", "{",
];

pub const ANSWER_KINDS: [&str; 9] = ["RoomDefinition", "RoomNode", "RoomLog", "RoomDailyNodes", "Nodes", "Edges", "NodeDeletionLog", "EdgeDeletionLog", "PeersForRoom"];
pub const ANSWER_VARIANTS: [&str; 19] = [
    "garbage-bytes", "truncated", "empty", "huge-length-prefix", "answer-of-another-kind", "row-empty-key", "row-short-key", "row-long-key", "row-empty-signature",
    "row-short-signature", "row-empty-entity", "row-json-not-an-object", "row-extreme-dates", "row-no-room",
    "signed-row-max-date", "signed-row-min-date", "signed-row-deep-json", "signed-row-huge-json", "signed-row-json-scalar",
];
pub const REQUEST_VARIANTS: [&str; 14] = [
    "prove-identity-empty", "prove-identity-1MB", "room-log-unknown-room", "room-log-at-extreme-date", "daily-nodes-empty-entity", "daily-nodes-quote-entity", "daily-nodes-extreme-date",
    "nodes-5000-ids", "edges-extreme-date", "node-deletion-log-quote-entity", "edge-deletion-log-extreme-date", "peers-for-unknown-room", "room-node-unknown", "fingerprint-and-room-list",
];

pub fn generate(seed: u64, property: &str, thorough: bool) -> Trace {
    let mut rc = Rng::stream(seed, "config");
    let mut rw = Rng::stream(seed, "workload");
    let model = gen_model(&mut rc);
    let mut steps = vec![Step::Model { text: render(&model), valid: true, shape: "generated-model".into(), evolved: None }];
    // the running model evolves by valid versions (index added, index removed, field added); requests keep using the
    // first version, of which every later one is a superset
    let mut cur = model.clone();
    let mut added = 0usize;
    let n = if thorough { 25 + rw.usize(25) } else { 10 + rw.usize(14) };
    for _ in 0..n {
        match rw.weighted(&[52, 18, 6, 10, 10, 6, 5, 4, 3, 8]) {
            0 => steps.push(gen_request(&mut rw, &model)),
            1 => {
                if let Step::Req { api, text, params, shape, .. } = gen_request(&mut rw, &model) {
                    steps.push(Step::Req { api, text: mutate_text(&mut rw, &text), params, valid: false, shape: format!("mutated:{}", shape.split(':').next().unwrap_or("")) });
                }
            }
            2 => {
                let text = mutate_text(&mut rw, &render(&model));
                steps.push(Step::Model { text, valid: false, shape: "mutated-model".into(), evolved: None });
            }
            3 => {
                let variant = rw.pick(&ANSWER_VARIANTS).to_string();
                let kind = if variant.starts_with("signed-row-") { "Nodes".to_string() } else if variant.starts_with("row-") { rw.pick(&["Nodes", "Nodes", "Edges", "NodeDeletionLog", "EdgeDeletionLog"]).to_string() } else { rw.pick(&ANSWER_KINDS).to_string() };
                steps.push(Step::PeerAnswer { kind, variant });
            }
            4 => steps.push(Step::PeerRequest { variant: rw.pick(&REQUEST_VARIANTS).to_string() }),
            5 => steps.push(Step::Restart),
            6 => {
                let (api, text, shape) = *rw.pick(&SYS_REQUESTS);
                steps.push(Step::Req { api: api.into(), text: text.into(), params: Some("{\"r\":\"@ROOM\"}".into()), valid: false, shape: shape.into() });
            }
            7 => {
                if let Step::Req { api, text, shape, .. } = gen_request(&mut rw, &model) {
                    steps.push(Step::Req { api, text, params: Some(rw.pick(&HOSTILE_PARAMS).to_string()), valid: false, shape: format!("hostile-params:{}", shape.split(':').next().unwrap_or("")) });
                }
            }
            8 => {
                let text = if rw.chance(1, 3) { render(&model) } else { mutate_text(&mut rw, &render(&model)) };
                steps.push(Step::StartWith { text, shape: "mutated-model".into() });
            }
            _ => {
                let ei = rw.usize(cur.len());
                let shape = if cur[ei].index.is_some() {
                    cur[ei].index = None;
                    "index-removed"
                } else if rw.chance(2, 3) {
                    let sc: Vec<String> = cur[ei].fields.iter().filter(|f| f.ty <= 3).map(|f| f.name.clone()).collect();
                    cur[ei].index = Some(rw.pick(&sc).clone());
                    "index-added"
                } else {
                    added += 1;
                    cur[ei].fields.push(FieldC { name: format!("added_{added}"), ty: rw.usize(6) as u8, nullable: true, default: false, target: 0 });
                    "field-added"
                };
                steps.push(Step::Model { text: render(&cur), valid: true, shape: shape.into(), evolved: Some(cur.clone()) });
            }
        }
    }
    Trace {
        engine: "chaos".into(),
        property: property.into(),
        seed,
        cfg: serde_json::to_value(&Cfg { model }).unwrap(),
        steps: steps.iter().map(|s| serde_json::to_value(s).unwrap()).collect(),
        expect_fingerprint: None,
        note: None,
    }
}

pub fn directed(property: &str) -> Vec<Trace> {
    let f = |name: &str, ty: u8, nullable: bool| FieldC { name: name.into(), ty, nullable, default: false, target: 0 };
    let fd = |name: &str, ty: u8, target: usize| FieldC { name: name.into(), ty, nullable: false, default: true, target };
    let model: ModelC = vec![
        EntityC { name: "Doc".into(), fields: vec![f("title", 3, false), f("meta", 5, true), f("group", 0, true), f("bin", 4, true), f("others", 7, false)], index: None },
        EntityC { name: "1a".into(), fields: vec![f("select", 3, false), fd("tag", 3, 1), fd("conf", 5, 0), f("n", 0, true), f("j", 5, true)], index: None },
    ];
    let mk = |note: &str, steps: Vec<Step>| Trace {
        engine: "chaos".into(),
        property: property.into(),
        seed: 0,
        cfg: serde_json::to_value(&Cfg { model: model.clone() }).unwrap(),
        steps: std::iter::once(Step::Model { text: render(&model), valid: true, shape: "generated-model".into(), evolved: None }).chain(steps.into_iter()).map(|s| serde_json::to_value(&s).unwrap()).collect(),
        expect_fingerprint: None,
        note: Some(note.to_string()),
    };
    let mut out = vec![];
    for (shape, text, params) in [
        ("param-null-on-Json-nullable", "mutate { Doc { room_id:$r title:\"t\" meta:$v } }", "{\"r\":\"@ROOM\",\"v\":null}"),
        ("param-null-on-Base64-nullable", "mutate { Doc { room_id:$r title:\"t\" bin:$v } }", "{\"r\":\"@ROOM\",\"v\":null}"),
        ("param-null-on-Integer-nullable", "mutate { Doc { room_id:$r title:\"t\" group:$v } }", "{\"r\":\"@ROOM\",\"v\":null}"),
    ] {
        let one = Step::Req { api: "mutate".into(), text: text.into(), params: Some(params.into()), valid: true, shape: shape.into() };
        out.push(mk(&format!("C14 {shape}, five times"), vec![one.clone(), one.clone(), one.clone(), one.clone(), one]));
    }
    out.push(mk(
        "C14 keyword identifiers in every position of a query",
        vec![
            Step::Req { api: "mutate".into(), text: "mutate { Doc { room_id:$r title:\"t\" group:3 } }".into(), params: Some("{\"r\":\"@ROOM\"}".into()), valid: true, shape: "create".into() },
            Step::Req { api: "query".into(), text: "query { select: Doc (group > 1, order_by(group desc), first 3) { from: title group where: group order: meta->$.a } }".into(), params: None, valid: true, shape: "query:alias+filter+order".into() },
            Step::Req { api: "query".into(), text: "query { Doc { table: count() index: max(group) } }".into(), params: None, valid: true, shape: "query:aggregate".into() },
        ],
    ));
    let q = |text: &str, shape: &str| Step::Req { api: "query".into(), text: text.into(), params: None, valid: true, shape: shape.into() };
    out.push(mk(
        "C14 generated SQL: digits-first entity, skip without first, filters after a number, defaults with a quote, Json default, search terms",
        vec![
            Step::Req { api: "mutate".into(), text: "mutate { 1a { room_id:$r select:\"hello world\" n:42 j:\"{\\\"a\\\":1}\" } }".into(), params: Some("{\"r\":\"@ROOM\"}".into()), valid: true, shape: "create".into() },
            q("query { 1a { id select } }", "query:digits-first"),
            q("query { 1a (skip 1) { select } }", "query:skip"),
            q("query { 1a (n != 42, j->$.a = 1) { select } }", "query:json-filter"),
            q("query { 1a (n = null, j->$.a = 1) { select } }", "query:json-filter"),
            q("query { 1a (tag = \"it's\") { select tag } }", "query:filter"),
            q("query { 1a (tag != \"x\") { select } }", "query:filter"),
            q("query { 1a { select conf c: conf->$.a } }", "query:json-select"),
            q("query { 1a (search(\"-x\")) { select } }", "query:search"),
            q("query { 1a (search(\"*\")) { select } }", "query:search"),
            q("query { 1a (search(\"\\\"\")) { select } }", "query:search"),
            q("query { 1a (search(\"hello AND (\")) { select } }", "query:search"),
            q("query { 1a (search(\"hello world\")) { select } }", "query:search"),
            q("query { 1a (search(\"\")) { select } }", "query:search"),
        ],
    ));
    {
        let mut m1 = model.clone();
        m1[0].index = Some("title".into());
        let m2 = model.clone();
        let mut m3 = model.clone();
        m3[0].fields.push(f("added_1", 0, true));
        let ev = |m: &ModelC, shape: &str| Step::Model { text: render(m), valid: true, shape: shape.into(), evolved: Some(m.clone()) };
        out.push(mk(
            "C14 an index is added, removed, then the model changes again and the instance restarts",
            vec![ev(&m1, "index-added"), Step::Restart, ev(&m2, "index-removed"), ev(&m3, "field-added"), Step::Restart, ev(&m1, "index-added"), Step::Restart],
        ));
    }
    for v in ANSWER_VARIANTS {
        out.push(mk(&format!("C14 hostile Nodes answer: {v}"), vec![Step::PeerAnswer { kind: "Nodes".into(), variant: v.into() }]));
    }
    for k in ANSWER_KINDS {
        out.push(mk(&format!("C14 garbage / truncated {k} answer"), vec![Step::PeerAnswer { kind: k.into(), variant: "garbage-bytes".into() }, Step::PeerAnswer { kind: k.into(), variant: "truncated".into() }, Step::PeerAnswer { kind: k.into(), variant: "huge-length-prefix".into() }]));
    }
    out.push(mk("C14 every hostile request on the serving side", REQUEST_VARIANTS.iter().map(|v| Step::PeerRequest { variant: v.to_string() }).collect()));
    out
}

// ------------------------------------------------------------------------------------------------ execution

struct Ctx {
    w: World,
    model: ModelC,
    model_live: bool,
    room: (Uid, String),
    now: i64,
    ids: Vec<Vec<String>>,
    probe_no: u64,
    any: bool,
}

const A: usize = 0;
const H: usize = 1;

pub fn execute(trace: &Trace, keep_log: bool) -> (crate::kit::RunReport, Vec<String>) {
    let cfg: Cfg = serde_json::from_value(trace.cfg.clone()).expect("bad chaos cfg");
    let steps: Vec<Step> = trace.steps.iter().filter_map(|s| serde_json::from_value(s.clone()).ok()).collect();
    let w = World::new("chaos", trace.seed, keep_log);
    let n = cfg.model.len();
    let mut c = Ctx { w, model: cfg.model, model_live: false, room: ([0; 16], String::new()), now: T0, ids: vec![vec![]; n], probe_no: 0, any: false };
    let _ = crate::kit::take_panics();
    if let Err(e) = setup(&mut c) {
        c.w.harness_error(format!("setup: {e}"));
        return c.w.finish();
    }
    for (i, st) in steps.iter().enumerate() {
        c.w.step_no = i + 1;
        let kind = match exec_step(&mut c, st) {
            Ok(k) => k,
            Err(e) => {
                c.w.harness_error(format!("step {i}: {e}"));
                break;
            }
        };
        if !health(&mut c, &kind) {
            // the instance is damaged: report, then go on with a restarted one
            if let Err(e) = restart(&mut c) {
                c.w.harness_error(format!("restart after damage: {e}"));
                break;
            }
        }
    }
    c.w.report.nontrivial = c.any;
    c.w.finish()
}

fn clocks(c: &mut Ctx) {
    for n in &mut c.w.nodes {
        n.clock = c.now;
    }
}

fn setup(c: &mut Ctx) -> Result<(), String> {
    let seed = c.w.report.seed;
    for i in 0..2 {
        let mut conf = dv::Configuration::default();
        conf.parallelism = 2;
        let mut n = SimNode::new(i, &format!("n{i}"), (10 + i * 40) as u8, &c.w.root, &format!("{{ {BASE_MODEL} }}"), conf, T0, seed + i as u64);
        n.start()?;
        c.w.nodes.push(n);
    }
    let (ka, kh) = (dv::base64_encode(&c.w.nodes[A].vk), dv::base64_encode(&c.w.nodes[H].vk));
    c.now += 100;
    clocks(c);
    let q = format!(
        r#"mutate {{ sys.Room{{ admin:[{{verif_key:"{kh}"}}] authorisations:[{{ name:"all" rights:[{{entity:"*" mutate_self:true mutate_all:true}}] users:[{{verif_key:"{kh}"}},{{verif_key:"{ka}"}}] }}] }} }}"#
    );
    let r = c.w.nodes[H].mutate(&q, None)?;
    let v: serde_json::Value = serde_json::from_str(&r).map_err(|e| e.to_string())?;
    let id = v["sys.Room"]["id"].as_str().ok_or("no id")?.to_string();
    c.room = (dv::uid_decode(&id).map_err(|e| e.to_string())?, id);
    c.now += 1000;
    clocks(c);
    let p = serde_json::json!({"r": c.room.1, "n": "probe of h"}).to_string();
    c.w.nodes[H].mutate("mutate { Probe{ room_id:$r name:$n } }", Some(&p))?;
    let _ = c.w.nodes[H].drain_events();
    let uid = c.room.0;
    let (p, s) = c.w.two(A, H);
    let (end, mut sess) = crate::net::pull(p, s, uid, None).map_err(|e| format!("{e:?}"))?;
    sess.abandon();
    if end != SessionEnd::Ok {
        return Err(format!("setup pull: {end:?}"));
    }
    let _ = c.w.nodes[A].drain_events();
    Ok(())
}

fn restart(c: &mut Ctx) -> Result<(), String> {
    let _ = crate::kit::take_panics();
    c.w.nodes[A].stop();
    // the model the instance accepted is the one it restarts with
    if c.model_live {
        c.w.nodes[A].model = render(&c.model);
    }
    if let Err(e) = c.w.nodes[A].start() {
        // an instance must restart on what it accepted and wrote itself
        c.w.violation("C14", "cannot-restart", format!("the instance no longer starts on its own data and the last data model it accepted: {}", crate::kit::cut(&e, 200)));
        // go on with the first model (or not at all)
        c.w.nodes[A].model = format!("{{ {BASE_MODEL} }}");
        c.w.nodes[A].start()?;
    }
    let _ = crate::kit::take_panics();
    Ok(())
}

fn is_engine_error(e: &dv::errors::DatabaseError) -> bool {
    matches!(e, dv::errors::DatabaseError::Database(_))
}

fn fill(params: &Option<String>, c: &Ctx) -> Option<String> {
    params.as_ref().map(|p| {
        let mut s = p.replace("@ROOM", &c.room.1);
        for (i, ids) in c.ids.iter().enumerate() {
            let id = ids.last().cloned().unwrap_or_else(|| dv::uid_encode(&[7u8; 16]));
            s = s.replace(&format!("@ID:{i}"), &id);
        }
        s
    })
}

fn exec_step(c: &mut Ctx, st: &Step) -> Result<String, String> {
    c.now += 1000;
    clocks(c);
    match st {
        Step::Model { text, valid, shape, evolved } => {
            let db = c.w.nodes[A].dbh();
            let t = text.clone();
            let r = c.w.nodes[A].run(async move {
                let (reply, receive) = tokio::sync::oneshot::channel();
                let _ = db.sender.send(dv::DbMessage::DataModelUpdate(t, reply)).await;
                match receive.await {
                    Ok(Ok(_)) => Ok(()),
                    Ok(Err(e)) => Err((is_engine_error(&e), e.to_string())),
                    Err(_) => Err((false, "no reply".to_string())),
                }
            });
            c.w.fault(if *valid { "model_update" } else { "mutated_model_update" });
            match r {
                Ok(Ok(())) => {
                    c.w.log.sched(format!("model {shape} accepted"));
                    if *valid {
                        c.model_live = true;
                        c.any = true;
                        if let Some(m) = evolved {
                            c.model = m.clone();
                        }
                    } else {
                        // a mutated text was accepted: the instance now runs a model the harness does not know;
                        // remember it for restarts
                        c.w.nodes[A].model = text.clone();
                        c.model_live = false;
                        c.w.probe("mutated_model_accepted");
                    }
                }
                Ok(Err((engine, e))) => {
                    c.w.log.sched(format!("model {shape} refused engine={engine}"));
                    c.w.log.log(format!("model error: {}", crate::kit::cut(&e, 200)));
                    if engine {
                        c.w.violation("C14", &format!("rejected-by-storage-engine/data-model/{shape}"), format!("a data model accepted by the parser was rejected by the storage engine: {}", crate::kit::cut(&e, 200)));
                    }
                }
                Err(h) => {
                    c.w.log.sched(format!("model {shape} {h:?}"));
                    return Ok(format!("data-model:{shape}"));
                }
            }
            Ok(format!("data-model:{shape}"))
        }
        Step::Req { api, text, params, valid, shape } => {
            c.any = true;
            let kind = format!("{api}:{shape}");
            let p = fill(params, c);
            let pp = match &p {
                Some(j) => match dv::Parameters::from_json(j) {
                    Ok(p) => Some(p),
                    Err(e) => {
                        c.w.log.sched(format!("req {kind} params refused"));
                        c.w.log.log(format!("params: {e}"));
                        return Ok(kind);
                    }
                },
                None => None,
            };
            let db = c.w.nodes[A].dbh();
            let (a, t) = (api.clone(), text.clone());
            let r = c.w.nodes[A].run(async move {
                let r: Result<String, dv::errors::DatabaseError> = match a.as_str() {
                    "query" => db.query(&t, pp).await,
                    "mutate" => db.mutate(&t, pp).await,
                    _ => db.delete(&t, pp).await.map(|_| String::new()),
                };
                r.map_err(|e| (is_engine_error(&e), e.to_string()))
            });
            c.w.fault(if *valid { "generated_request" } else { "hostile_request" });
            match r {
                Ok(Ok(res)) => {
                    c.w.log.sched(format!("req {kind} ok"));
                    if api == "mutate" {
                        // remember created ids per entity
                        if let Ok(v) = serde_json::from_str::<serde_json::Value>(&res) {
                            if let Some(o) = v.as_object() {
                                for (name, val) in o {
                                    if let (Some(i), Some(id)) = (c.model.iter().position(|e| &e.name == name), val["id"].as_str()) {
                                        c.ids[i].push(id.to_string());
                                    }
                                }
                            }
                        }
                    }
                }
                Ok(Err((engine, e))) => {
                    c.w.log.sched(format!("req {kind} err engine={engine}"));
                    c.w.log.log(format!("error: {}", crate::kit::cut(&e, 300)));
                    if engine {
                        let sh = shape.split(':').next().unwrap_or("");
                        let what = if e.contains("syntax error") {
                            "syntax-error"
                        } else if e.contains("no such column") {
                            "no-such-column"
                        } else if e.contains("fts5") {
                            "full-text-syntax"
                        } else {
                            "other"
                        };
                        c.w.violation("C14", &format!("rejected-by-storage-engine/{api}/{what}"), format!("a request the parser accepted was rejected by the storage engine ({sh}): {} <= {}", crate::kit::cut(&e, 160), crate::kit::cut(&text, 200)));
                    }
                }
                Err(h) => {
                    c.w.log.sched(format!("req {kind} {h:?}"));
                }
            }
            Ok(kind)
        }
        Step::PeerAnswer { kind, variant } => {
            c.any = true;
            // something new on the peer, on a new day, so that every request kind is sent
            c.now += DAY_MS;
            clocks(c);
            c.probe_no += 1;
            let p = serde_json::json!({"r": c.room.1, "n": format!("news {}", c.probe_no), "o": format!("other {}", c.probe_no)}).to_string();
            let r = c.w.nodes[H].mutate("mutate { Probe{ room_id:$r name:$n others:[{name:$o}] } }", Some(&p))?;
            let v: serde_json::Value = serde_json::from_str(&r).unwrap_or_default();
            let (pid, oid) = (v["Probe"]["id"].as_str().unwrap_or("").to_string(), v["Probe"]["others"][0]["id"].as_str().unwrap_or("").to_string());
            c.now += 1000;
            clocks(c);
            if c.probe_no % 2 == 0 {
                // a reference deletion and a row deletion, so that both deletion logs are requested
                let p = serde_json::json!({"id": pid, "t": oid}).to_string();
                let _ = c.w.nodes[H].delete("delete { Probe { $id others[$t] } }", Some(&p));
                let p = serde_json::json!({"id": oid}).to_string();
                let _ = c.w.nodes[H].delete("delete { Probe { $id } }", Some(&p));
            }
            let _ = c.w.nodes[H].drain_events();
            let fired = Rc::new(RefCell::new(0usize));
            let end = hostile_pull(c, kind, variant, fired.clone())?;
            c.w.fault(&format!("peer_answer_{variant}"));
            c.w.log.sched(format!("peer-answer {kind} {variant} fired={} end={}", *fired.borrow(), end));
            if *fired.borrow() == 0 {
                c.w.probe("peer_answer_not_applied");
            }
            // whatever was stored is then used locally: updated, read, deleted
            let p = serde_json::json!({"id": pid}).to_string();
            let r1 = c.w.nodes[A].mutate("mutate { Probe { id:$id n:5 } }", Some(&p));
            let r2 = c.w.nodes[A].query("query { Probe(id=$id, nullable(others)) { id name n mdate cdate others{ name } } }", Some(&p));
            let r3 = if c.probe_no % 3 == 0 { c.w.nodes[A].delete("delete { Probe { $id } }", Some(&p)).map(|_| String::new()) } else { Ok(String::new()) };
            c.w.log.sched(format!("local use of the received row: update={} query={} delete={}", r1.is_ok(), r2.is_ok(), r3.is_ok()));
            for r in [r1, r2, r3] {
                if let Err(e) = r {
                    c.w.log.log(format!("local use error: {}", crate::kit::cut(&e, 200)));
                }
            }
            Ok(format!("peer-answer:{kind}:{variant}"))
        }
        Step::PeerRequest { variant } => {
            c.any = true;
            let room = c.room.0;
            let id0 = [0u8; 16];
            let mut allowed = HashSet::new();
            allowed.insert(room);
            let hv = c.w.nodes[H].vk.clone();
            let mut side = ServerSide::new(&c.w.nodes[A], allowed, hv, true);
            let qs: Vec<SyncQuery> = match variant.as_str() {
                "prove-identity-empty" => vec![SyncQuery::ProveIdentity(vec![])],
                "prove-identity-1MB" => vec![SyncQuery::ProveIdentity(vec![7u8; 1 << 20])],
                "room-log-unknown-room" => vec![SyncQuery::RoomLog(id0), SyncQuery::RoomDefinition(id0)],
                "room-log-at-extreme-date" => vec![SyncQuery::RoomLogAt(room, i64::MIN), SyncQuery::RoomLogAt(room, i64::MAX)],
                "daily-nodes-empty-entity" => vec![SyncQuery::RoomDailyNodes(room, String::new(), c.now)],
                "daily-nodes-quote-entity" => vec![SyncQuery::RoomDailyNodes(room, "0'; DROP TABLE _node;--".into(), c.now)],
                "daily-nodes-extreme-date" => vec![SyncQuery::RoomDailyNodes(room, "0".into(), i64::MIN), SyncQuery::RoomDailyNodes(room, "0".into(), i64::MAX)],
                "nodes-5000-ids" => vec![SyncQuery::Nodes(room, vec![id0; 5000])],
                "edges-extreme-date" => vec![SyncQuery::Edges(room, vec![(id0, i64::MIN), (id0, i64::MAX)])],
                "node-deletion-log-quote-entity" => vec![SyncQuery::NodeDeletionLog(room, "\"'\u{0}".into(), 0)],
                "edge-deletion-log-extreme-date" => vec![SyncQuery::EdgeDeletionLog(room, "0".into(), i64::MIN), SyncQuery::EdgeDeletionLog(room, "0".into(), i64::MAX)],
                "peers-for-unknown-room" => vec![SyncQuery::PeersForRoom(id0)],
                "room-node-unknown" => vec![SyncQuery::RoomNode(id0)],
                _ => vec![SyncQuery::HardwareFingerprint(), SyncQuery::RoomList],
            };
            for (i, q) in qs.into_iter().enumerate() {
                let r = side.serve(&mut c.w.nodes[A], dv::QueryProtocol { id: 100 + i as u64, query: q });
                c.w.log.sched(format!("peer-request {variant} answers={}", r.as_ref().map(|a| a.len() as i64).unwrap_or(-1)));
            }
            c.w.fault("hostile_peer_request");
            Ok(format!("peer-request:{variant}"))
        }
        Step::StartWith { text, shape } => {
            c.any = true;
            let idx = c.w.nodes.len();
            let mut conf = dv::Configuration::default();
            conf.parallelism = 1;
            let mut n = SimNode::new(idx, &format!("fresh{}", c.w.step_no), 150, &c.w.root, text, conf, c.now, c.w.report.seed + 9);
            let r = n.start();
            c.w.fault("start_with_model");
            c.w.log.sched(format!("start-with {shape} ok={}", r.is_ok()));
            if let Err(e) = &r {
                c.w.log.log(format!("start error: {}", crate::kit::cut(e, 200)));
                if e.starts_with("HUNG") {
                    c.w.violation("C14", "hang/start-with-data-model", format!("starting an instance with a data model text never returns: {}", crate::kit::cut(text, 200)));
                }
            }
            if n.is_up() {
                n.stop();
            }
            Ok(format!("start-with:{shape}"))
        }
        Step::Restart => {
            restart(c)?;
            c.w.log.sched("restart");
            Ok("restart".into())
        }
    }
}

fn corrupt(kind: &str, variant: &str, answers: &mut Vec<Answer>, count: &Rc<RefCell<usize>>, key: &dv::Ed25519SigningKey) {
    let Some(ix) = answers.iter().position(|a| a.success && (!a.complete || !a.serialized.is_empty())) else { return };
    let a = &mut answers[ix];
    match variant {
        "garbage-bytes" => a.serialized = (0..97u8).map(|i| i.wrapping_mul(37) ^ 0xA5).collect(),
        "truncated" => {
            let n = a.serialized.len();
            a.serialized.truncate(n / 2)
        }
        "empty" => a.serialized.clear(),
        "huge-length-prefix" => {
            let mut v = u64::MAX.to_le_bytes().to_vec();
            v.extend_from_slice(&a.serialized);
            a.serialized = v;
        }
        "answer-of-another-kind" => {
            a.serialized = if kind == "Nodes" { bincode::serialize(&vec![(1u64, 2u64)]).unwrap_or_default() } else { bincode::serialize(&Vec::<dv::Node>::new()).unwrap_or_default() };
        }
        v if v.starts_with("signed-row-") => {
            // rows validly signed by the serving peer itself (a member with every right): they pass the signature check
            if kind != "Nodes" {
                return;
            }
            let Ok(mut rows) = bincode::deserialize::<Vec<dv::Node>>(&a.serialized) else { return };
            for n in rows.iter_mut() {
                match v {
                    "signed-row-max-date" => n.mdate = i64::MAX,
                    "signed-row-min-date" => {
                        n.mdate = i64::MIN;
                        n.cdate = i64::MIN
                    }
                    "signed-row-deep-json" => n._json = Some(format!("{{\"32\":{}1{}}}", "[".repeat(3000), "]".repeat(3000))),
                    "signed-row-huge-json" => n._json = Some(format!("{{\"32\":\"{}\"}}", "z".repeat(2_000_000))),
                    _ => n._json = Some("42".into()),
                }
                let _ = n.sign(key);
            }
            a.serialized = bincode::serialize(&rows).unwrap_or_default();
        }
        v if v.starts_with("row-") => {
            // the same damage on whatever signed kind the answer carries
            macro_rules! damage {
                ($key:expr, $sig:expr, $ent:expr, $d1:expr, $d2:expr) => {
                    match v {
                        "row-empty-key" => $key.clear(),
                        "row-short-key" => $key.truncate(31),
                        "row-long-key" => $key.push(1),
                        "row-empty-signature" => $sig.clear(),
                        "row-short-signature" => $sig.truncate(63),
                        "row-empty-entity" => $ent.clear(),
                        "row-extreme-dates" => {
                            *$d1 = i64::MAX;
                            *$d2 = i64::MIN
                        }
                        _ => {}
                    }
                };
            }
            match kind {
                "Nodes" => {
                    let Ok(mut rows) = bincode::deserialize::<Vec<dv::Node>>(&a.serialized) else { return };
                    for n in rows.iter_mut() {
                        damage!(n.verifying_key, n._signature, n._entity, &mut n.mdate, &mut n.cdate);
                        match v {
                            "row-json-not-an-object" => n._json = Some("[1,2".into()),
                            "row-no-room" => n.room_id = None,
                            _ => {}
                        }
                    }
                    a.serialized = bincode::serialize(&rows).unwrap_or_default();
                }
                "Edges" => {
                    let Ok(mut rows) = bincode::deserialize::<Vec<dv::Edge>>(&a.serialized) else { return };
                    if rows.is_empty() {
                        return;
                    }
                    for n in rows.iter_mut() {
                        let mut unused = 0i64;
                        damage!(n.verifying_key, n.signature, n.src_entity, &mut n.cdate, &mut unused);
                        match v {
                            "row-json-not-an-object" => n.label.clear(),
                            "row-no-room" => n.dest = [0; 16],
                            _ => {}
                        }
                    }
                    a.serialized = bincode::serialize(&rows).unwrap_or_default();
                }
                "NodeDeletionLog" => {
                    let Ok(mut rows) = bincode::deserialize::<Vec<dv::NodeDeletionEntry>>(&a.serialized) else { return };
                    if rows.is_empty() {
                        return;
                    }
                    for n in rows.iter_mut() {
                        damage!(n.verifying_key, n.signature, n.entity, &mut n.mdate, &mut n.deletion_date);
                        if v == "row-no-room" {
                            n.room_id = [0; 16];
                        }
                    }
                    a.serialized = bincode::serialize(&rows).unwrap_or_default();
                }
                "EdgeDeletionLog" => {
                    let Ok(mut rows) = bincode::deserialize::<Vec<dv::EdgeDeletionEntry>>(&a.serialized) else { return };
                    if rows.is_empty() {
                        return;
                    }
                    for n in rows.iter_mut() {
                        damage!(n.verifying_key, n.signature, n.src_entity, &mut n.cdate, &mut n.deletion_date);
                        if v == "row-no-room" {
                            n.room_id = [0; 16];
                        }
                    }
                    a.serialized = bincode::serialize(&rows).unwrap_or_default();
                }
                _ => return,
            }
        }
        _ => return,
    }
    *count.borrow_mut() += 1;
}

fn hostile_pull(c: &mut Ctx, kind: &str, variant: &str, count: Rc<RefCell<usize>>) -> Result<String, String> {
    let uid = c.room.0;
    let (p, s) = c.w.two(A, H);
    let mut sess = Session::open(p, s, uid);
    let (k, v, cnt) = (kind.to_string(), variant.to_string(), count.clone());
    let hkey = c.w.nodes[H].signing_key();
    sess.mitm = Some(Box::new(move |akind, mut answers| {
        if akind == k {
            corrupt(&k, &v, &mut answers, &cnt, &hkey);
        }
        answers
    }));
    let r = (|| -> Result<(), crate::node::Hung> {
        sess.pump_puller(&mut c.w.nodes[A])?;
        let mut guard = 0;
        loop {
            guard += 1;
            if guard > 5000 || sess.finished() {
                break;
            }
            let (p, s) = c.w.two(A, H);
            if sess.deliver_answer(p)? {
                continue;
            }
            if sess.deliver_query(s)? {
                continue;
            }
            p.settle()?;
            sess.pump_puller(p)?;
            if sess.pending_answers.is_empty() && sess.pending_queries.is_empty() && !sess.finished() {
                // the puller waits for an answer that will not come: what a timeout does
                p.advance_timers(std::time::Duration::from_secs(dv::NETWORK_TIMEOUT_SEC + 1))?;
                sess.pump_puller(p)?;
                if sess.pending_answers.is_empty() && sess.pending_queries.is_empty() && !sess.finished() {
                    break;
                }
            }
        }
        Ok(())
    })();
    let end = match r {
        Ok(()) => format!("{:?}", sess.result(&mut c.w.nodes[A]).map(|e| matches!(e, SessionEnd::Ok))),
        Err(h) => format!("{h:?}"),
    };
    sess.abandon();
    let _ = c.w.nodes[A].drain_events();
    Ok(end)
}

/// the health oracle, after every input. Returns false if the instance is damaged.
fn health(c: &mut Ctx, kind: &str) -> bool {
    let mut ok = true;
    let class = kind.split(':').take(2).collect::<Vec<_>>().join(":");
    for p in crate::kit::take_panics() {
        ok = false;
        // "panicked at src/database/x.rs:LINE:COL:" -> file and line
        let site = p.trim_start_matches("panicked at ").trim_end_matches(':').rsplitn(2, ':').nth(1).unwrap_or(&p).replace("/repo/", "");
        c.w.violation("C14", &format!("panic/{site}"), format!("{p} (after {kind})"));
    }
    let expected = c.w.nodes[A].expected_threads;
    let live = dv::live_threads(A);
    if expected > 0 && live < expected {
        if ok {
            // no panic was seen: a thread stopped silently
            c.w.violation("C14", &format!("service-thread-stopped/{class}"), format!("{} of {expected} service threads are left after {kind}", live));
        } else {
            c.w.log.log(format!("{live} of {expected} service threads are left"));
        }
        ok = false;
    }
    if !ok {
        return false;
    }
    // the next requests are answered normally
    c.probe_no += 1;
    let name = format!("probe {}", c.probe_no);
    let p = serde_json::json!({"r": c.room.1, "n": name}).to_string();
    match c.w.nodes[A].mutate("mutate { Probe{ room_id:$r name:$n } }", Some(&p)) {
        Ok(_) => {}
        Err(e) => {
            c.w.violation("C14", &format!("next-request-fails/mutation/{class}"), format!("after {kind} the probe mutation fails: {e}"));
            return false;
        }
    }
    let p = serde_json::json!({"n": name}).to_string();
    match c.w.nodes[A].query("query { Probe(name=$n){ name } }", Some(&p)) {
        Ok(r) if r.contains(&name) => {}
        Ok(r) => {
            c.w.violation("C14", &format!("next-request-fails/query/{class}"), format!("after {kind} the probe query does not return the probe row: {r}"));
            return false;
        }
        Err(e) => {
            c.w.violation("C14", &format!("next-request-fails/query/{class}"), format!("after {kind} the probe query fails: {e}"));
            return false;
        }
    }
    // the verifier pool still verifies (as many calls as there are verifier threads, so that a dead one is met)
    let sv = c.w.nodes[A].services.clone();
    if let Some(sv) = sv {
        let key = c.w.nodes[A].signing_key();
        let room = c.room.0;
        let now = c.now;
        let r = c.w.nodes[A].run(async move {
            for i in 0..4u8 {
                let mut n = dv::Node { id: [i + 1; 16], room_id: Some(room), cdate: now, mdate: now, _entity: "0".into(), _json: Some("{\"32\":\"v\"}".into()), _binary: None, verifying_key: vec![], _signature: vec![], _local_id: None };
                if n.sign(&key).is_err() {
                    return false;
                }
                match sv.signature_verification.verify_nodes(vec![n]).await {
                    Ok(v) if v.len() == 1 => {}
                    _ => return false,
                }
            }
            true
        });
        if !matches!(r, Ok(true)) {
            c.w.violation("C14", &format!("next-request-fails/signature-verification/{class}"), format!("after {kind} a valid row is no longer verified ({r:?})"));
            return false;
        }
    }
    let _ = c.w.nodes[A].drain_events();
    // anything the probes themselves broke
    for p in crate::kit::take_panics() {
        c.w.violation("C14", "panic/in-probe", format!("{p} (probe after {kind})"));
        return false;
    }
    true
}
