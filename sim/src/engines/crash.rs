//! Engine `crash`: one node under the batch gate (H7) and the writer fault points (H6).
//! C13: atomic / durable / no phantom / log repairable / writer not wedged.
//! C18 (batching part): every committed change is announced, whatever the transaction boundaries.
use crate::kit::{day_of, Rng, DAY_MS, T0};
use crate::net::{self, SessionEnd};
use crate::node::{Hung, SimNode};
use crate::oracle;
use crate::world::{Trace, World};
use discret::verif as dv;
use discret::verif::{Event, FaultKind, Uid, Writeable};
use serde::{Deserialize, Serialize};
use std::collections::{BTreeMap, BTreeSet};
use tokio::task::JoinHandle;

pub const MODEL: &str = "{
    Person{ name:String, parents:[Person], pet:Pet nullable }
    Pet{ name:String }
}";

/// error-capable sites are inside the write functions the batch writer calls (the shipped error handling runs);
/// crash-only sites are between them
pub const ERROR_SITES: [&str; 11] = [
    "stmt_entity",
    "stmt_after_node",
    "stmt_edge",
    "stmt_delete",
    "stmt_delete_mid",
    "stmt_sync_node",
    "stmt_sync_del_node",
    "stmt_marks",
    "stmt_marks_end",
    "stmt_compute",
    "before_commit",
];
pub const CRASH_ONLY_SITES: [&str; 4] = ["batch_begin", "after_msg", "after_commit", "before_ack"];

#[derive(Clone, Debug, Serialize, Deserialize)]
pub struct Cfg {
    pub write_buffer_length: usize,
    pub oracles: Vec<String>,
    /// rows the prepared peer holds before the run (for Pull operations)
    pub peer_rows: usize,
}

#[derive(Clone, Debug, Serialize, Deserialize)]
#[serde(tag = "k")]
pub enum OpKind {
    /// parent + two children + pet + three references in one mutation
    Multi,
    /// rename the parent row of an earlier Multi
    Update { target: u32 },
    /// delete the parent row of an earlier Multi
    Delete { target: u32 },
    /// remove a reference of an earlier Multi (parent -> first child)
    RefDel { target: u32 },
    /// room mutation: a new room with a marker-named group
    NewRoom,
    /// room mutation: a new group added to the data room
    RoomGroup,
    /// ONE mutation that adds a group to the data room and writes two rows into that same room
    RoomData,
    /// pull the room from the prepared peer (synchronised batches)
    Pull,
    /// pull, from the prepared peer, a room this node has never seen (its definition is written by the batch writer)
    PullNewRoom,
    /// mutation stream with two mutations, then closed
    Stream,
}

#[derive(Clone, Debug, Serialize, Deserialize)]
pub struct Op {
    pub kind: OpKind,
    pub marker: u32,
}

#[derive(Clone, Debug, Serialize, Deserialize)]
#[serde(tag = "t")]
pub enum Step {
    /// one operation, its own transaction
    One { op: Op, dt: i64 },
    /// several operations in flight together, committed in ONE transaction (gate)
    Group { ops: Vec<Op>, dt: i64, with_compute: bool },
    Arm { site: String, hit: u64, kind: String },
    Restart,
    Compute,
    Probe { marker: u32 },
}

#[derive(Clone, Debug, PartialEq)]
enum Ack {
    Ok,
    Failed(String),
    /// the process (writer) died before acknowledging
    Lost,
}

struct OpRec {
    op: Op,
    ack: Ack,
    step: usize,
    /// a fault was pending or fired during the step that ran this op
    under_fault: bool,
    /// day of the node clock when issued
    day: i64,
    /// ids of the rows it created (parent first) when acknowledged
    parent_id: Option<String>,
}

struct Ctx {
    w: World,
    cfg: Cfg,
    room: Uid,
    room_b64: String,
    /// a room created by the prepared peer that node A has never seen
    room2: Uid,
    recs: Vec<OpRec>,
    armed: Option<(String, u64, String)>,
    fault_fired: bool,
    crashed: bool,
    events_data: BTreeSet<(String, String, i64)>,
    events_rooms: Vec<String>,
    now: i64,
    any: bool,
}

struct Noop;
impl Writeable for Noop {
    fn write(&mut self, _conn: &rusqlite::Connection) -> Result<(), rusqlite::Error> {
        Ok(())
    }
}

fn has(cfg: &Cfg, o: &str) -> bool {
    cfg.oracles.iter().any(|x| x == o)
}

fn kind_of(s: &str) -> FaultKind {
    match s {
        "error_once" => FaultKind::ErrorOnce,
        "error_sticky" => FaultKind::ErrorSticky(2),
        "crash" => FaultKind::Panic,
        _ => FaultKind::ErrorOnce,
    }
}

// ---------------------------------------------------------------------------------------
// generation
// ---------------------------------------------------------------------------------------
pub fn generate(seed: u64, property: &str, thorough: bool) -> Trace {
    let mut rc = Rng::stream(seed, "config");
    let mut rw = Rng::stream(seed, "workload");
    let mut rf = Rng::stream(seed, "faults");
    let c18 = property == "C18";
    let cfg = Cfg {
        write_buffer_length: *rc.pick(&[1usize, 2, 8, 1024]),
        oracles: vec![property.to_string()],
        peer_rows: 1 + rc.usize(3),
    };
    let mut steps = vec![];
    let mut marker = 1u32;
    let mut multis: Vec<u32> = vec![];
    let mut used: BTreeSet<u32> = BTreeSet::new();
    let gen_op = |rw: &mut Rng, marker: &mut u32, multis: &mut Vec<u32>, used: &mut BTreeSet<u32>| -> Op {
        let free: Vec<u32> = multis.iter().cloned().filter(|m| !used.contains(m)).collect();
        let w: [u32; 9] = [30, if free.is_empty() { 0 } else { 14 }, if free.is_empty() { 0 } else { 12 }, if free.is_empty() { 0 } else { 8 }, 8, 8, 8, 6, 8];
        let k = rw.weighted(&w);
        let m = *marker;
        *marker += 1;
        let kind = match k {
            0 => {
                multis.push(m);
                OpKind::Multi
            }
            1 => {
                let t = *rw.pick(&free);
                used.insert(t);
                OpKind::Update { target: t }
            }
            2 => {
                let t = *rw.pick(&free);
                used.insert(t);
                OpKind::Delete { target: t }
            }
            3 => {
                let t = *rw.pick(&free);
                used.insert(t);
                OpKind::RefDel { target: t }
            }
            4 => OpKind::NewRoom,
            5 => OpKind::RoomGroup,
            6 => OpKind::Pull,
            7 => OpKind::RoomData,
            _ => OpKind::Stream,
        };
        Op { kind, marker: m }
    };
    let gen_dt = |rw: &mut Rng| -> i64 { *rw.pick(&[0i64, 1, 1000, 3_600_000, DAY_MS, DAY_MS, 2 * DAY_MS]) };
    // warm-up, fault-free
    let warm = 1 + rw.usize(4);
    for _ in 0..warm {
        if rw.chance(1, 3) {
            let n = 2 + rw.usize(3);
            let ops = (0..n).map(|_| gen_op(&mut rw, &mut marker, &mut multis, &mut used)).collect();
            steps.push(Step::Group { ops, dt: gen_dt(&mut rw), with_compute: rw.chance(1, 3) });
        } else {
            steps.push(Step::One { op: gen_op(&mut rw, &mut marker, &mut multis, &mut used), dt: gen_dt(&mut rw) });
        }
    }
    // the fault (C13) — C18 runs are fault-free
    let rounds = if thorough { 2 + rw.usize(3) } else { 1 + rw.usize(2) };
    let mut pulled = false;
    for _ in 0..rounds {
        // a round aimed at the synchronised batches: the fault lands inside the pull, a fault-free request follows
        if !c18 && !pulled && rf.chance(1, 4) {
            pulled = true;
            let site = *rf.pick(&["stmt_sync_node", "stmt_edge", "stmt_edge", "stmt_sync_del_node", "before_commit", "after_msg", "stmt_marks"]);
            let kind = if site == "after_msg" || rf.chance(1, 3) { "crash" } else { "error_once" };
            steps.push(Step::Arm { site: site.to_string(), hit: 1 + rf.below(3), kind: kind.to_string() });
            let m = marker;
            marker += 3;
            let new_room = rf.chance(1, 2);
            let kind = |nr: bool| if nr { OpKind::PullNewRoom } else { OpKind::Pull };
            steps.push(Step::One { op: Op { kind: kind(new_room), marker: m }, dt: 1000 });
            steps.push(Step::One { op: gen_op(&mut rw, &mut marker, &mut multis, &mut used), dt: gen_dt(&mut rw) });
            steps.push(Step::Probe { marker: m + 1 });
            steps.push(Step::One { op: Op { kind: kind(new_room), marker: m + 2 }, dt: 1000 });
            let m2 = marker;
            marker += 1;
            steps.push(Step::Probe { marker: m2 });
            continue;
        }
        if !c18 && rf.chance(5, 6) {
            let crash = rf.chance(1, 2);
            let site = if crash && rf.chance(1, 3) {
                CRASH_ONLY_SITES[rf.usize(CRASH_ONLY_SITES.len())]
            } else {
                ERROR_SITES[rf.usize(ERROR_SITES.len())]
            };
            let kind = if crash {
                "crash"
            } else if rf.chance(1, 4) {
                "error_sticky"
            } else {
                "error_once"
            };
            steps.push(Step::Arm { site: site.to_string(), hit: 1 + rf.below(4), kind: kind.to_string() });
        }
        let n_under = 1 + rw.usize(3);
        for _ in 0..n_under {
            if rw.chance(1, 2) {
                let n = 2 + rw.usize(4);
                let ops = (0..n).map(|_| gen_op(&mut rw, &mut marker, &mut multis, &mut used)).collect();
                steps.push(Step::Group { ops, dt: gen_dt(&mut rw), with_compute: rw.chance(1, 3) });
            } else {
                steps.push(Step::One { op: gen_op(&mut rw, &mut marker, &mut multis, &mut used), dt: gen_dt(&mut rw) });
            }
            if rw.chance(1, 5) {
                steps.push(Step::Compute);
            }
        }
        let m = marker;
        marker += 1;
        steps.push(Step::Probe { marker: m });
        if rw.chance(1, 4) {
            steps.push(Step::Restart);
        }
    }
    Trace {
        engine: "crash".into(),
        property: property.into(),
        seed,
        cfg: serde_json::to_value(&cfg).unwrap(),
        steps: steps.iter().map(|s| serde_json::to_value(s).unwrap()).collect(),
        expect_fingerprint: None,
        note: None,
    }
}

pub fn directed(property: &str) -> Vec<Trace> {
    let mk = |name: &str, steps: Vec<Step>| Trace {
        engine: "crash".into(),
        property: property.into(),
        seed: 0,
        cfg: serde_json::to_value(&Cfg { write_buffer_length: 1024, oracles: vec![property.to_string()], peer_rows: 2 }).unwrap(),
        steps: steps.iter().map(|s| serde_json::to_value(s).unwrap()).collect(),
        expect_fingerprint: None,
        note: Some(name.to_string()),
    };
    let multi = |m: u32| Op { kind: OpKind::Multi, marker: m };
    let mut out = vec![];
    match property {
        "C13" => {
            for (site, kind) in [
                ("before_commit", "error_once"),
                ("stmt_marks", "error_once"),
                ("stmt_marks_end", "error_once"),
                ("stmt_entity", "error_once"),
                ("stmt_edge", "error_once"),
                ("after_commit", "crash"),
                ("before_commit", "crash"),
                ("stmt_marks", "crash"),
                ("before_ack", "crash"),
                ("stmt_after_node", "crash"),
            ] {
                out.push(mk(
                    &format!("C13 {kind} at {site} in a 3-request transaction, then a fault-free request"),
                    vec![
                        Step::One { op: multi(1), dt: 1 },
                        Step::Arm { site: site.into(), hit: 2, kind: kind.into() },
                        Step::Group { ops: vec![multi(2), Op { kind: OpKind::Update { target: 1 }, marker: 3 }, multi(4)], dt: DAY_MS, with_compute: false },
                        Step::Probe { marker: 5 },
                    ],
                ));
            }
            out.push(mk(
                "C13 crash while a synchronised batch is written",
                vec![
                    Step::One { op: multi(1), dt: 1 },
                    Step::Arm { site: "stmt_sync_node".into(), hit: 2, kind: "crash".into() },
                    Step::One { op: Op { kind: OpKind::Pull, marker: 2 }, dt: 1000 },
                    Step::Probe { marker: 3 },
                ],
            ));
            out.push(mk(
                "C13 statement error on the second reference of a synchronised batch, then a fault-free request, then the pull again",
                vec![
                    Step::One { op: multi(1), dt: 1 },
                    Step::Arm { site: "stmt_edge".into(), hit: 2, kind: "error_once".into() },
                    Step::One { op: Op { kind: OpKind::Pull, marker: 2 }, dt: 1000 },
                    Step::One { op: multi(3), dt: 1000 },
                    Step::Probe { marker: 4 },
                    Step::One { op: Op { kind: OpKind::Pull, marker: 5 }, dt: 1000 },
                    Step::Probe { marker: 6 },
                ],
            ));
            for (site, kind) in [("stmt_edge", "error_once"), ("before_commit", "error_once"), ("after_msg", "crash")] {
                out.push(mk(
                    &format!("C13 {kind} at {site} while the definition of a room never seen is written, then a fault-free request, then the pull again"),
                    vec![
                        Step::One { op: multi(1), dt: 1 },
                        Step::Arm { site: site.into(), hit: 1, kind: kind.into() },
                        Step::One { op: Op { kind: OpKind::PullNewRoom, marker: 2 }, dt: 1000 },
                        Step::One { op: multi(3), dt: 1000 },
                        Step::Probe { marker: 4 },
                        Step::One { op: Op { kind: OpKind::PullNewRoom, marker: 5 }, dt: 1000 },
                        Step::Probe { marker: 6 },
                    ],
                ));
            }
            out.push(mk(
                "C13 statement error inside a deletion, then a fault-free request",
                vec![
                    Step::One { op: multi(1), dt: 1 },
                    Step::Arm { site: "stmt_delete_mid".into(), hit: 1, kind: "error_once".into() },
                    Step::One { op: Op { kind: OpKind::Delete { target: 1 }, marker: 2 }, dt: DAY_MS },
                    Step::Probe { marker: 3 },
                ],
            ));
        }
        "C18" => {
            out.push(mk(
                "C18 two mutations of different days and a room mutation in one transaction",
                vec![
                    Step::One { op: multi(1), dt: 1 },
                    Step::Group {
                        ops: vec![multi(2), Op { kind: OpKind::NewRoom, marker: 3 }, Op { kind: OpKind::Update { target: 1 }, marker: 4 }],
                        dt: DAY_MS,
                        with_compute: false,
                    },
                ],
            ));
            out.push(mk(
                "C18 mutation committed in the same transaction as a recomputation pass",
                vec![
                    Step::One { op: multi(1), dt: 1 },
                    Step::Group { ops: vec![multi(2), multi(3)], dt: DAY_MS, with_compute: true },
                ],
            ));
            out.push(mk(
                "C18 stream closed while another caller mutates",
                vec![
                    Step::Group { ops: vec![Op { kind: OpKind::Stream, marker: 1 }, multi(2)], dt: 1, with_compute: false },
                    Step::One { op: Op { kind: OpKind::RoomGroup, marker: 3 }, dt: DAY_MS },
                ],
            ));
        }
        _ => {}
    }
    out
}

// ---------------------------------------------------------------------------------------
// execution
// ---------------------------------------------------------------------------------------
pub fn execute(trace: &Trace, keep_log: bool) -> (crate::kit::RunReport, Vec<String>) {
    let cfg: Cfg = serde_json::from_value(trace.cfg.clone()).expect("bad crash cfg");
    let steps: Vec<Step> = trace.steps.iter().filter_map(|s| serde_json::from_value(s.clone()).ok()).collect();
    let w = World::new("crash", trace.seed, keep_log);
    let mut c = Ctx {
        w,
        cfg,
        room: [0; 16],
        room_b64: String::new(),
        room2: [0; 16],
        recs: vec![],
        armed: None,
        fault_fired: false,
        crashed: false,
        events_data: BTreeSet::new(),
        events_rooms: vec![],
        now: T0,
        any: false,
    };
    if let Err(e) = setup(&mut c) {
        c.w.harness_error(format!("setup: {e}"));
        return c.w.finish();
    }
    let mut aborted = false;
    for (i, st) in steps.iter().enumerate() {
        c.w.step_no = i + 1;
        if let Err(e) = exec_step(&mut c, st) {
            if e != "node cannot restart" {
                c.w.harness_error(format!("step {i} {st:?}: {e}"));
            }
            aborted = true;
            break;
        }
        if !c.w.report.harness_errors.is_empty() {
            break;
        }
    }
    if c.w.report.harness_errors.is_empty() && !aborted {
        c.w.step_no = steps.len() + 1;
        if let Err(e) = finale(&mut c) {
            if e != "node cannot restart" {
                c.w.harness_error(format!("finale: {e}"));
            }
        }
    }
    dv::disarm_faults();
    c.w.report.nontrivial = c.any;
    c.w.finish()
}

fn node_conf(cfg: &Cfg) -> dv::Configuration {
    let mut conf = dv::Configuration::default();
    conf.parallelism = 1;
    conf.write_buffer_length = cfg.write_buffer_length;
    conf.enable_multicast = false;
    conf.enable_beacons = false;
    conf
}

fn setup(c: &mut Ctx) -> Result<(), String> {
    let seed = c.w.report.seed;
    let mut a = SimNode::new(0, "a", 10, &c.w.root, MODEL, node_conf(&c.cfg), T0, seed);
    a.start()?;
    let mut b = SimNode::new(1, "b", 50, &c.w.root, MODEL, node_conf(&c.cfg), T0, seed + 1);
    b.start()?;
    let (ka, kb) = (dv::base64_encode(&a.vk), dv::base64_encode(&b.vk));
    c.w.nodes.push(a);
    c.w.nodes.push(b);
    c.now += 1;
    sync_clocks(c);
    let q = format!(
        r#"mutate {{ sys.Room{{ admin:[{{verif_key:"{ka}"}}] authorisations:[{{ name:"all" rights:[{{entity:"Person" mutate_self:true mutate_all:true}},{{entity:"Pet" mutate_self:true mutate_all:true}}] users:[{{verif_key:"{ka}"}},{{verif_key:"{kb}"}}] }}] }} }}"#
    );
    let r = c.w.nodes[0].mutate(&q, None)?;
    let v: serde_json::Value = serde_json::from_str(&r).map_err(|e| e.to_string())?;
    c.room_b64 = v["sys.Room"]["id"].as_str().ok_or("no room id")?.to_string();
    c.room = dv::uid_decode(&c.room_b64).map_err(|e| e.to_string())?;
    // the prepared peer learns the room and writes its rows
    let room = c.room;
    {
        let (p, s) = c.w.two(1, 0);
        let (end, mut sess) = net::pull(p, s, room, None).map_err(|e| format!("{e:?}"))?;
        sess.abandon();
        if end != SessionEnd::Ok {
            return Err(format!("setup pull: {end:?}"));
        }
    }
    for i in 0..c.cfg.peer_rows {
        c.now += 1;
        sync_clocks(c);
        let p = serde_json::json!({"r": c.room_b64, "n": format!("peer-{i}-p"), "c": format!("peer-{i}-pet")}).to_string();
        c.w.nodes[1].mutate("mutate { Person{ room_id:$r name:$n pet:{name:$c} } }", Some(&p))?;
    }
    // a room of the prepared peer's own, with one row: node A learns it by PullNewRoom only
    c.now += 1;
    sync_clocks(c);
    let q = format!(
        r#"mutate {{ sys.Room{{ admin:[{{verif_key:"{kb}"}}] authorisations:[{{ name:"all" rights:[{{entity:"Person" mutate_self:true mutate_all:true}},{{entity:"Pet" mutate_self:true mutate_all:true}}] users:[{{verif_key:"{ka}"}},{{verif_key:"{kb}"}}] }}] }} }}"#
    );
    let r = c.w.nodes[1].mutate(&q, None)?;
    let v: serde_json::Value = serde_json::from_str(&r).map_err(|e| e.to_string())?;
    let id2 = v["sys.Room"]["id"].as_str().ok_or("no room id")?.to_string();
    c.room2 = dv::uid_decode(&id2).map_err(|e| e.to_string())?;
    c.now += 1;
    sync_clocks(c);
    let p = serde_json::json!({"r": id2, "n": "peer-room2-p"}).to_string();
    c.w.nodes[1].mutate("mutate { Person{ room_id:$r name:$n } }", Some(&p))?;
    let _ = c.w.nodes[0].drain_events();
    let _ = c.w.nodes[1].drain_events();
    dv::reset_fault_counters();
    Ok(())
}

fn sync_clocks(c: &mut Ctx) {
    for n in &mut c.w.nodes {
        n.clock = c.now;
    }
}

fn names_for(op: &Op) -> Vec<(String, &'static str)> {
    let m = op.marker;
    match op.kind {
        OpKind::Multi => vec![
            (format!("m{m}-p"), "Person"),
            (format!("m{m}-c1"), "Person"),
            (format!("m{m}-c2"), "Person"),
            (format!("m{m}-pet"), "Pet"),
        ],
        OpKind::Stream => vec![(format!("m{m}-s1"), "Person"), (format!("m{m}-s2"), "Pet")],
        OpKind::RoomData => vec![(format!("m{m}-rd1"), "Person"), (format!("m{m}-rd2"), "Pet")],
        _ => vec![],
    }
}

/// issue one operation as a task on node A; returns a handle resolving to Ok(parent id) / Err(message)
fn issue(c: &mut Ctx, op: &Op) -> Result<JoinHandle<Result<Option<String>, String>>, String> {
    let db = c.w.nodes[0].dbh();
    let room = c.room_b64.clone();
    let m = op.marker;
    let target_id = |c: &Ctx, t: u32| -> Option<String> { c.recs.iter().find(|r| r.op.marker == t).and_then(|r| r.parent_id.clone()) };
    let h = match &op.kind {
        OpKind::Multi => {
            let p = serde_json::json!({"r": room, "p": format!("m{m}-p"), "c1": format!("m{m}-c1"), "c2": format!("m{m}-c2"), "pet": format!("m{m}-pet")}).to_string();
            c.w.nodes[0].spawn(async move {
                let params = dv::Parameters::from_json(&p).map_err(|e| e.to_string())?;
                let r = db
                    .mutate("mutate { Person{ room_id:$r name:$p parents:[{name:$c1},{name:$c2}] pet:{name:$pet} } }", Some(params))
                    .await
                    .map_err(|e| e.to_string())?;
                let v: serde_json::Value = serde_json::from_str(&r).map_err(|e| e.to_string())?;
                Ok(v["Person"]["id"].as_str().map(|s| s.to_string()))
            })
        }
        OpKind::Update { target } => {
            let Some(id) = target_id(c, *target) else { return Err("skip".into()) };
            let p = serde_json::json!({"id": id, "n": format!("m{m}-u")}).to_string();
            c.w.nodes[0].spawn(async move {
                let params = dv::Parameters::from_json(&p).map_err(|e| e.to_string())?;
                db.mutate("mutate { Person{ id:$id name:$n } }", Some(params)).await.map_err(|e| e.to_string())?;
                Ok(None)
            })
        }
        OpKind::Delete { target } => {
            let Some(id) = target_id(c, *target) else { return Err("skip".into()) };
            let p = serde_json::json!({"id": id}).to_string();
            c.w.nodes[0].spawn(async move {
                let params = dv::Parameters::from_json(&p).map_err(|e| e.to_string())?;
                db.delete("delete { Person{ $id } }", Some(params)).await.map_err(|e| e.to_string())?;
                Ok(None)
            })
        }
        OpKind::RefDel { target } => {
            let Some(id) = target_id(c, *target) else { return Err("skip".into()) };
            // the first child id is looked up now (read before the fault is relevant)
            let q = c.w.nodes[0].query(
                "query { Person(id=$id){ parents(order_by(name asc)){ id } } }",
                Some(&serde_json::json!({"id": id}).to_string()),
            );
            let child = q.ok().and_then(|r| serde_json::from_str::<serde_json::Value>(&r).ok()).and_then(|v| v["Person"][0]["parents"][0]["id"].as_str().map(|s| s.to_string()));
            let Some(child) = child else { return Err("skip".into()) };
            let p = serde_json::json!({"id": id, "t": child}).to_string();
            c.w.nodes[0].spawn(async move {
                let params = dv::Parameters::from_json(&p).map_err(|e| e.to_string())?;
                db.delete("delete { Person{ $id parents[$t] } }", Some(params)).await.map_err(|e| e.to_string())?;
                Ok(None)
            })
        }
        OpKind::NewRoom => {
            let ka = dv::base64_encode(&c.w.nodes[0].vk);
            let q = format!(r#"mutate {{ sys.Room{{ admin:[{{verif_key:"{ka}"}}] authorisations:[{{ name:"m{m}-room" rights:[{{entity:"Person" mutate_self:true mutate_all:false}}] users:[{{verif_key:"{ka}"}}] }}] }} }}"#);
            c.w.nodes[0].spawn(async move {
                let r = db.mutate(&q, None).await.map_err(|e| e.to_string())?;
                let v: serde_json::Value = serde_json::from_str(&r).map_err(|e| e.to_string())?;
                Ok(v["sys.Room"]["id"].as_str().map(|s| s.to_string()))
            })
        }
        OpKind::RoomGroup => {
            let ka = dv::base64_encode(&c.w.nodes[0].vk);
            let q = format!(r#"mutate {{ sys.Room{{ id:"{room}" authorisations:[{{ name:"m{m}-group" rights:[{{entity:"Pet" mutate_self:true mutate_all:false}}] users:[{{verif_key:"{ka}"}}] }}] }} }}"#);
            c.w.nodes[0].spawn(async move {
                db.mutate(&q, None).await.map_err(|e| e.to_string())?;
                Ok(None)
            })
        }
        OpKind::RoomData => {
            let ka = dv::base64_encode(&c.w.nodes[0].vk);
            let q = format!(
                r#"mutate {{ sys.Room{{ id:"{room}" authorisations:[{{ name:"m{m}-group" rights:[{{entity:"Pet" mutate_self:true mutate_all:false}}] users:[{{verif_key:"{ka}"}}] }}] }} Person{{ room_id:"{room}" name:"m{m}-rd1" }} Pet{{ room_id:"{room}" name:"m{m}-rd2" }} }}"#
            );
            c.w.nodes[0].spawn(async move {
                db.mutate(&q, None).await.map_err(|e| e.to_string())?;
                Ok(None)
            })
        }
        OpKind::Stream => {
            let p1 = serde_json::json!({"r": room, "n": format!("m{m}-s1")}).to_string();
            let p2 = serde_json::json!({"r": room, "n": format!("m{m}-s2")}).to_string();
            c.w.nodes[0].spawn(async move {
                let (tx, mut rx) = db.mutation_stream();
                let a = dv::Parameters::from_json(&p1).map_err(|e| e.to_string())?;
                let b = dv::Parameters::from_json(&p2).map_err(|e| e.to_string())?;
                tx.send(("mutate { Person{ room_id:$r name:$n } }".to_string(), Some(a))).await.map_err(|e| e.to_string())?;
                tx.send(("mutate { Pet{ room_id:$r name:$n } }".to_string(), Some(b))).await.map_err(|e| e.to_string())?;
                drop(tx);
                let mut res = Ok(None);
                let mut n = 0;
                while let Some(r) = rx.recv().await {
                    n += 1;
                    if let Err(e) = r {
                        res = Err(e.to_string());
                    }
                    if n == 2 {
                        break;
                    }
                }
                if n < 2 && res.is_ok() {
                    res = Err("stream closed before both acknowledgements".to_string());
                }
                res
            })
        }
        OpKind::Pull | OpKind::PullNewRoom => return Err("pull".into()),
    };
    Ok(h)
}

fn drain_events(c: &mut Ctx) {
    let room_ids: Vec<String> = vec![c.room_b64.clone()];
    let _ = room_ids;
    for e in c.w.nodes[0].drain_events() {
        match e {
            Event::DataChanged(dm) => {
                for (room, ents) in &dm.rooms {
                    for (ent, days) in ents {
                        for d in days {
                            c.events_data.insert((room.clone(), ent.clone(), *d));
                        }
                    }
                }
            }
            Event::RoomModified(room) => {
                c.events_rooms.push(format!("{:?}", room));
            }
            _ => {}
        }
    }
}

/// settle node A; a dead writer thread is a crash: restart on the same directory
fn settle_or_crash(c: &mut Ctx) -> Result<bool, String> {
    match c.w.nodes[0].settle() {
        Ok(_) => Ok(false),
        Err(Hung::ThreadDied) => Ok(true),
        Err(e) => Err(format!(
            "{e:?} inflight={} held={} threads={} expected={} fired={:?} hits={:?}",
            dv::inflight_now(0),
            dv::held_now(0),
            dv::live_threads(0),
            c.w.nodes[0].expected_threads,
            dv::faults_fired(),
            dv::fault_hits()
        )),
    }
}

fn restart(c: &mut Ctx, crash: bool) -> Result<(), String> {
    let left = c.w.nodes[0].stop();
    if left != 0 {
        return Err(format!("{left} helper threads alive after stop"));
    }
    dv::disarm_faults();
    c.armed = None;
    if crash {
        c.w.fault("crash_in_txn");
        c.crashed = true;
    }
    let r = c.w.nodes[0].start();
    c.w.fault("restart");
    c.w.log.sched(format!("restart crash={crash} ok={}", r.is_ok()));
    if let Err(e) = r {
        c.w.violation("C13", "restart-failed", format!("restart after {} failed: {e}", if crash { "crash" } else { "stop" }));
        return Err("node cannot restart".into());
    }
    let _ = c.w.nodes[0].drain_events();
    Ok(())
}

fn note_fired(c: &mut Ctx) {
    for (_, site, _) in dv::faults_fired() {
        if !c.fault_fired {
            c.fault_fired = true;
        }
        let kind = c.armed.as_ref().map(|a| a.2.clone()).unwrap_or("?".into());
        c.w.fault(&format!("{kind}@{site}"));
    }
    dv::reset_fault_counters();
}

fn run_ops(c: &mut Ctx, ops: &[Op], grouped: bool, with_compute: bool) -> Result<(), String> {
    let under_fault = c.armed.is_some();
    let day = day_of(c.now);
    let step = c.w.step_no;
    // pulls run alone (they are a session, not a request)
    if ops.len() == 1 && matches!(ops[0].kind, OpKind::Pull | OpKind::PullNewRoom) {
        let room = if matches!(ops[0].kind, OpKind::Pull) { c.room } else { c.room2 };
        let (a, b) = c.w.two(0, 1);
        let r = net::pull(a, b, room, None);
        let ack = match r {
            Ok((SessionEnd::Ok, mut s)) => {
                s.abandon();
                Ack::Ok
            }
            Ok((e, mut s)) => {
                s.abandon();
                Ack::Failed(format!("{e:?}"))
            }
            Err(Hung::ThreadDied) => Ack::Lost,
            Err(e) => return Err(format!("pull: {e:?}")),
        };
        c.w.log.sched(format!("pull ack={}", ack_s(&ack)));
        c.recs.push(OpRec { op: ops[0].clone(), ack: ack.clone(), step, under_fault, day, parent_id: None });
        note_fired(c);
        if ack == Ack::Lost || c.w.nodes[0].settle().is_err() {
            restart(c, true)?;
        }
        c.any = true;
        return Ok(());
    }
    // a stream pipelines several requests: their transaction boundaries would be decided by thread timing,
    // so streams always run under the gate (one transaction, decided by the simulator)
    let grouped = grouped || ops.iter().any(|o| matches!(o.kind, OpKind::Stream));
    if grouped {
        dv::set_hold(0, 1_000_000);
    }
    let mut handles = vec![];
    for op in ops {
        if matches!(op.kind, OpKind::Pull | OpKind::PullNewRoom) {
            continue;
        }
        match issue(c, op) {
            Ok(h) => handles.push((op.clone(), h)),
            Err(_) => {}
        }
        if grouped {
            // let the request travel to the gate before the next one is issued (reads precede the common write)
            if settle_or_crash(c)? {
                break;
            }
        }
    }
    if grouped {
        if with_compute {
            let db = c.w.nodes[0].dbh();
            let _ = c.w.nodes[0].spawn(async move { db.compute_daily_log().await });
            let _ = settle_or_crash(c)?;
        }
        c.w.fault(&format!("gate_batch_{}", dv::held_now(0).min(9)));
        dv::set_hold(0, 0);
        // nudge the buffering task with a no-op write: everything held goes to the writer as ONE transaction
        let w = c.w.nodes[0].dbh().db.writer.clone();
        let _ = c.w.nodes[0].spawn(async move { w.write(Box::new(Noop)).await.map(|_| ()).map_err(|e| e.to_string()) });
    }
    let died = settle_or_crash(c)?;
    note_fired(c);
    // collect acknowledgements
    for (op, h) in handles {
        let ack = if h.is_finished() {
            match c.w.nodes[0].rt().block_on(async { h.await }) {
                Ok(Ok(id)) => {
                    c.recs.push(OpRec { op: op.clone(), ack: Ack::Ok, step, under_fault, day, parent_id: id });
                    c.w.log.sched(format!("op {:?} ack=ok", kind_s(&op.kind)));
                    continue;
                }
                Ok(Err(e)) => {
                    if died && (e.contains("channel closed") || e.contains("closed")) {
                        Ack::Lost
                    } else {
                        Ack::Failed(e)
                    }
                }
                Err(_) => Ack::Lost,
            }
        } else {
            h.abort();
            if died {
                Ack::Lost
            } else {
                c.w.violation(
                    "C13",
                    "request-never-answered",
                    format!("operation m{} ({}) was neither acknowledged nor refused although the writer is alive", op.marker, kind_s(&op.kind)),
                );
                Ack::Failed("no answer".into())
            }
        };
        c.w.log.sched(format!("op {:?} ack={}", kind_s(&op.kind), ack_s(&ack)));
        c.w.log.log(format!("  m{} -> {:?}", op.marker, ack));
        c.recs.push(OpRec { op, ack, step, under_fault, day, parent_id: None });
    }
    c.any = true;
    if died {
        restart(c, true)?;
    } else {
        drain_events(c);
    }
    Ok(())
}

fn kind_s(k: &OpKind) -> &'static str {
    match k {
        OpKind::Multi => "multi",
        OpKind::Update { .. } => "update",
        OpKind::Delete { .. } => "delete",
        OpKind::RefDel { .. } => "refdel",
        OpKind::NewRoom => "newroom",
        OpKind::RoomGroup => "roomgroup",
        OpKind::RoomData => "room-and-data",
        OpKind::Pull => "pull",
        OpKind::PullNewRoom => "pull-new-room",
        OpKind::Stream => "stream",
    }
}
fn ack_s(a: &Ack) -> &'static str {
    match a {
        Ack::Ok => "ok",
        Ack::Failed(_) => "failed",
        Ack::Lost => "lost",
    }
}

fn exec_step(c: &mut Ctx, st: &Step) -> Result<(), String> {
    match st {
        Step::One { op, dt } => {
            c.now += dt.max(&0);
            sync_clocks(c);
            run_ops(c, &[op.clone()], false, false)?;
        }
        Step::Group { ops, dt, with_compute } => {
            c.now += dt.max(&0);
            sync_clocks(c);
            let (pulls, rest): (Vec<Op>, Vec<Op>) = ops.iter().cloned().partition(|o| matches!(o.kind, OpKind::Pull | OpKind::PullNewRoom));
            if !rest.is_empty() {
                run_ops(c, &rest, true, *with_compute)?;
            }
            for p in pulls {
                run_ops(c, &[p], false, false)?;
            }
        }
        Step::Arm { site, hit, kind } => {
            dv::arm_fault(0, site, *hit, kind_of(kind));
            c.armed = Some((site.clone(), *hit, kind.clone()));
            c.w.log.sched(format!("arm {kind}@{site}#{hit}"));
        }
        Step::Restart => {
            if settle_or_crash(c)? {
                restart(c, true)?;
            } else {
                restart(c, false)?;
            }
        }
        Step::Compute => {
            let db = c.w.nodes[0].dbh();
            let _ = c.w.nodes[0].spawn(async move { db.compute_daily_log().await });
            if settle_or_crash(c)? {
                note_fired(c);
                restart(c, true)?;
            } else {
                note_fired(c);
                drain_events(c);
            }
        }
        Step::Probe { marker } => {
            // faults stop here: whatever is still armed is disarmed, then a fault-free request must be served
            dv::disarm_faults();
            let was_armed = c.armed.take();
            let p = serde_json::json!({"r": c.room_b64, "n": format!("m{marker}-probe")}).to_string();
            let r = c.w.nodes[0].mutate("mutate { Pet{ room_id:$r name:$n } }", Some(&p));
            c.w.log.sched(format!("probe ok={}", r.is_ok()));
            c.w.probe("probe");
            match r {
                Ok(_) => {
                    c.recs.push(OpRec {
                        op: Op { kind: OpKind::Multi, marker: u32::MAX },
                        ack: Ack::Ok,
                        step: c.w.step_no,
                        under_fault: false,
                        day: day_of(c.now),
                        parent_id: None,
                    });
                    c.recs.pop();
                }
                Err(e) => {
                    if has(&c.cfg, "C13") {
                        let site = was_armed.map(|a| format!("{}@{}", a.2, a.0)).unwrap_or("after-earlier-fault".into());
                        c.w.violation(
                            "C13",
                            &format!("writer-wedged-after-error/{}", site.split('#').next().unwrap_or("")),
                            format!("after the injected fault ({site}) a fault-free mutation is refused: {e}"),
                        );
                    }
                }
            }
            drain_events(c);
            if has(&c.cfg, "C13") {
                check_c13(c, "probe")?;
            }
        }
    }
    Ok(())
}

fn all_names(c: &mut Ctx) -> Result<(BTreeMap<String, String>, BTreeSet<String>), String> {
    let r = c.w.nodes[0].query("query { Person(order_by(name asc)){ id name parents(order_by(name asc), nullable()){ name } pet(nullable()){ name } } }", None);
    // nullable() may not be accepted on references in every position: fall back to plain queries
    let mut persons: BTreeMap<String, String> = BTreeMap::new();
    let _ = r;
    let r = c.w.nodes[0].query("query { Person(order_by(name asc)){ id name } }", None)?;
    let v: serde_json::Value = serde_json::from_str(&r).map_err(|e| e.to_string())?;
    for x in v["Person"].as_array().cloned().unwrap_or_default() {
        persons.insert(x["name"].as_str().unwrap_or("").to_string(), x["id"].as_str().unwrap_or("").to_string());
    }
    let r = c.w.nodes[0].query("query { Pet(order_by(name asc)){ id name } }", None)?;
    let v: serde_json::Value = serde_json::from_str(&r).map_err(|e| e.to_string())?;
    let mut pets = BTreeSet::new();
    for x in v["Pet"].as_array().cloned().unwrap_or_default() {
        pets.insert(x["name"].as_str().unwrap_or("").to_string());
    }
    Ok((persons, pets))
}

/// atomic / durable / no phantom, evaluated on the API (queries) and on the stored references
fn check_c13(c: &mut Ctx, at: &str) -> Result<(), String> {
    let (persons, pets) = all_names(c)?;
    let d = oracle::dump_room(&c.w.nodes[0].oracle_conn()?, &c.room)?;
    let site = |r: &OpRec, c: &Ctx| -> String {
        let _ = c;
        if r.under_fault { "under-fault".to_string() } else { "fault-free".to_string() }
    };
    // which rows were deleted / renamed by acknowledged later operations
    let mut deleted: BTreeSet<u32> = BTreeSet::new();
    let mut maybe_deleted: BTreeSet<u32> = BTreeSet::new();
    let mut renamed: BTreeMap<u32, (u32, Ack)> = BTreeMap::new();
    for r in &c.recs {
        match (&r.op.kind, &r.ack) {
            (OpKind::Delete { target }, Ack::Ok) => {
                deleted.insert(*target);
            }
            (OpKind::Delete { target }, Ack::Lost) => {
                maybe_deleted.insert(*target);
            }
            (OpKind::Update { target }, a) => {
                renamed.insert(*target, (r.op.marker, a.clone()));
            }
            _ => {}
        }
    }
    let recs: Vec<(Op, Ack, bool, Option<String>)> = c.recs.iter().map(|r| (r.op.clone(), r.ack.clone(), r.under_fault, r.parent_id.clone())).collect();
    for (op, ack, under_fault, parent_id) in recs {
        let shape = format!("{}:{}", kind_s(&op.kind), if under_fault { "under-fault" } else { "fault-free" });
        let _ = site;
        match &op.kind {
            OpKind::Multi | OpKind::Stream | OpKind::RoomData => {
                let names = names_for(&op);
                let mut present = 0;
                let mut total = 0;
                for (n, ent) in &names {
                    // the parent may have been renamed or deleted by a later acknowledged operation
                    let is_parent = n.ends_with("-p");
                    if is_parent {
                        if deleted.contains(&op.marker) || maybe_deleted.contains(&op.marker) {
                            continue;
                        }
                        if let Some((um, uack)) = renamed.get(&op.marker) {
                            let new_name = format!("m{um}-u");
                            let has_old = persons.contains_key(n);
                            let has_new = persons.contains_key(&new_name);
                            total += 1;
                            match uack {
                                Ack::Ok => {
                                    if has_new {
                                        present += 1;
                                    } else if has_old {
                                        c.w.violation("C13", &format!("acked-lost/update"), format!("at {at}: acknowledged rename m{um} is not visible (row still named {n})"));
                                        present += 1;
                                    }
                                }
                                Ack::Failed(_) => {
                                    if has_new {
                                        c.w.violation("C13", "failed-visible/update", format!("at {at}: rename m{um} was reported failed but is visible"));
                                    }
                                    if has_old || has_new {
                                        present += 1;
                                    }
                                }
                                Ack::Lost => {
                                    if has_old || has_new {
                                        present += 1;
                                    }
                                }
                            }
                            continue;
                        }
                    }
                    total += 1;
                    let here = if *ent == "Person" { persons.contains_key(n) } else { pets.contains(n) };
                    if here {
                        present += 1;
                    }
                }
                // references of a Multi: parent -> c1, c2, pet (3 references) when the parent is there
                let mut refs_ok = true;
                if matches!(op.kind, OpKind::Multi) && !deleted.contains(&op.marker) && !maybe_deleted.contains(&op.marker) {
                    if let Some(pid) = parent_id.as_ref().and_then(|p| dv::uid_decode(p).ok()) {
                        let n_edges = d.edges.iter().filter(|e| e.src == pid.to_vec()).count();
                        let refdel_acked = c.recs.iter().filter(|r| matches!(&r.op.kind, OpKind::RefDel { target } if *target == op.marker)).map(|r| r.ack.clone()).next();
                        let expect: Vec<usize> = match refdel_acked {
                            Some(Ack::Ok) => vec![2],
                            Some(Ack::Lost) => vec![2, 3],
                            _ => vec![3],
                        };
                        if present > 0 && !expect.contains(&n_edges) {
                            refs_ok = false;
                        }
                    }
                }
                match ack {
                    Ack::Ok => {
                        if present != total || !refs_ok {
                            let clause = if present == 0 { "acked-lost" } else { "partial-operation" };
                            c.w.violation("C13", &format!("{clause}/{shape}"), format!("at {at}: acknowledged operation m{} shows {present}/{total} rows (references complete: {refs_ok})", op.marker));
                        }
                    }
                    Ack::Failed(ref e) => {
                        if present != 0 {
                            let clause = if present == total { "failed-visible" } else { "partial-operation" };
                            c.w.violation("C13", &format!("{clause}/{shape}"), format!("at {at}: operation m{} was reported failed ({e}) but {present}/{total} of its rows are visible", op.marker));
                        }
                    }
                    Ack::Lost => {
                        if (present != 0 && present != total) || (present == total && !refs_ok) {
                            c.w.violation("C13", &format!("partial-operation/{shape}"), format!("at {at}: operation m{} was cut by the crash and {present}/{total} of its rows are visible (references complete: {refs_ok})", op.marker));
                        }
                    }
                }
            }
            OpKind::Delete { target } => {
                let n = format!("m{target}-p");
                let renamed_to = renamed.get(target).map(|x| format!("m{}-u", x.0));
                let here = persons.contains_key(&n) || renamed_to.map(|r| persons.contains_key(&r)).unwrap_or(false);
                match ack {
                    Ack::Ok => {
                        if here {
                            c.w.violation("C13", &format!("acked-lost/{shape}"), format!("at {at}: acknowledged deletion m{} but the row is still visible", op.marker));
                        }
                    }
                    Ack::Failed(_) => {
                        if !here {
                            c.w.violation("C13", &format!("failed-visible/{shape}"), format!("at {at}: deletion m{} was reported failed but the row is gone", op.marker));
                        }
                    }
                    Ack::Lost => {}
                }
            }
            _ => {}
        }
    }
    // synchronised batches: each entity's rows of the prepared peer arrive entirely or not at all
    for ent in ["Person", "Pet"] {
        let mut present = 0;
        for i in 0..c.cfg.peer_rows {
            let n = if ent == "Person" { format!("peer-{i}-p") } else { format!("peer-{i}-pet") };
            let here = if ent == "Person" { persons.contains_key(&n) } else { pets.contains(&n) };
            if here {
                present += 1;
            }
        }
        let pulled_ok = c.recs.iter().any(|r| matches!(r.op.kind, OpKind::Pull) && r.ack == Ack::Ok);
        if present != 0 && present != c.cfg.peer_rows {
            c.w.violation("C13", "partial-operation/synchronised-batch", format!("at {at}: {present}/{} {ent} rows of one synchronised batch are visible", c.cfg.peer_rows));
        }
        if pulled_ok && present == 0 {
            c.w.violation("C13", "acked-lost/synchronised-batch", format!("at {at}: a pull completed Ok but none of the peer's {ent} rows is visible"));
        }
    }
    // the room learnt from the peer is known in memory exactly when its definition is stored
    {
        let auth = c.w.nodes[0].dbh().auth.clone();
        let uid = c.room2;
        let in_memory = c.w.nodes[0]
            .run(async move {
                let (tx, rx) = tokio::sync::oneshot::channel();
                let _ = auth.send(dv::AuthorisationMessage::VerifGetRoom(uid, tx)).await;
                rx.await.ok().flatten().is_some()
            })
            .map_err(|e| format!("{e:?}"))?;
        let stored = dv::RoomNode::read(&c.w.nodes[0].oracle_conn()?, &c.room2).map_err(|e| e.to_string())?.is_some();
        if in_memory != stored {
            c.w.violation("C13", "partial-operation/synchronised-room-definition", format!("at {at}: the room received from the peer is known in memory: {in_memory}, stored: {stored}"));
        }
        let acked = c.recs.iter().any(|r| matches!(r.op.kind, OpKind::PullNewRoom) && r.ack == Ack::Ok);
        if acked && !stored {
            c.w.violation("C13", "acked-lost/synchronised-room-definition", format!("at {at}: a pull of the new room completed Ok but its definition is not stored"));
        }
    }
    // the references of the prepared peer (one per row, all written the same day) arrive in one batch too: all or none,
    // whether or not the rows they start from have arrived yet
    {
        let conn = c.w.nodes[0].oracle_conn()?;
        let peer_key = c.w.nodes[1].vk.clone();
        let n: i64 = conn.query_row("SELECT count(*) FROM _edge WHERE verifying_key = ?1 AND src_entity = '0'", [peer_key], |r| r.get(0)).map_err(|e| e.to_string())?;
        if n != 0 && n as usize != c.cfg.peer_rows {
            c.w.violation("C13", "partial-operation/synchronised-references", format!("at {at}: {n}/{} references of one synchronised batch are stored", c.cfg.peer_rows));
        }
    }
    Ok(())
}

fn finale(c: &mut Ctx) -> Result<(), String> {
    dv::disarm_faults();
    c.armed = None;
    if settle_or_crash(c)? {
        restart(c, true)?;
    }
    if has(&c.cfg, "C13") {
        // durability across a restart, then the log after the start-up recomputation barrier
        check_c13(c, "end")?;
        restart(c, false)?;
        check_c13(c, "after-restart")?;
        let _ = c.w.nodes[0].compute_daily_log();
        let d = oracle::dump_room(&c.w.nodes[0].oracle_conn()?, &c.room)?;
        c.w.states.insert(d.content_digest());
        for (clause, detail) in oracle::check_daily_against_dump(&d) {
            c.w.violation("C13", &format!("log-inconsistent-after-restart/{clause}"), detail);
        }
        let rebuilt = oracle::rebuild_daily(&d, &c.room)?;
        let a: Vec<String> = d.daily.iter().map(|x| x.line()).collect();
        let b: Vec<String> = rebuilt.iter().map(|x| x.line()).collect();
        if a != b {
            c.w.violation("C13", "log-inconsistent-after-restart/differs-from-rebuild", oracle::first_diff(&a, &b).unwrap_or_default());
        }
    }
    if has(&c.cfg, "C18") {
        let _ = c.w.nodes[0].compute_daily_log();
        drain_events(c);
        if c.w.nodes[0].events_lagged > 0 {
            // the 16-slot broadcast overflowed before the harness read it: the subscriber saw an error, nothing can be judged
            c.w.probe("c18_subscriber_lagged_not_judged");
        } else {
            check_c18(c)?;
        }
    }
    Ok(())
}

fn check_c18(c: &mut Ctx) -> Result<(), String> {
    let room = c.room_b64.clone();
    let recs: Vec<(Op, Ack, i64, Option<String>)> = c.recs.iter().map(|r| (r.op.clone(), r.ack.clone(), r.day, r.parent_id.clone())).collect();
    let mut groups_acked = 0usize;
    for (op, ack, day, id) in recs {
        if ack != Ack::Ok {
            continue;
        }
        let mut need: Vec<(String, String, i64)> = vec![];
        match &op.kind {
            OpKind::Multi => {
                need.push((room.clone(), "Person".into(), day));
                need.push((room.clone(), "Pet".into(), day));
            }
            OpKind::Stream => {
                need.push((room.clone(), "Person".into(), day));
                need.push((room.clone(), "Pet".into(), day));
            }
            OpKind::Update { .. } | OpKind::Delete { .. } | OpKind::RefDel { .. } => {
                need.push((room.clone(), "Person".into(), day));
            }
            OpKind::Pull | OpKind::PullNewRoom => {}
            OpKind::NewRoom => {
                c.w.probe("c18_room_change");
                let rid = id.clone().unwrap_or_default();
                let idtxt = dv::uid_decode(&rid).map(|u| format!("id: {:?}", u)).unwrap_or("?".into());
                if !c.events_rooms.iter().any(|r| r.contains(&idtxt)) {
                    c.w.violation("C18", "room-change-not-announced/new-room", format!("room created by m{} was acknowledged but no RoomModified event carries it", op.marker));
                }
            }
            OpKind::RoomData => {
                c.w.probe("c18_room_change");
                need.push((room.clone(), "Person".into(), day));
                need.push((room.clone(), "Pet".into(), day));
                let idtxt = format!("id: {:?}", c.room);
                groups_acked += 1;
                let want = 1 + groups_acked;
                if !c.events_rooms.iter().any(|r| r.contains(&idtxt) && r.matches("Authorisation {").count() >= want) {
                    c.w.violation("C18", "room-change-not-announced/room-update", format!("group added by m{} (together with rows) was acknowledged but no RoomModified event carries the room with that group", op.marker));
                }
            }
            OpKind::RoomGroup => {
                c.w.probe("c18_room_change");
                // the data room must have been announced with the new group
                let idtxt = format!("id: {:?}", c.room);
                groups_acked += 1;
                let want = 1 + groups_acked;
                if !c.events_rooms.iter().any(|r| r.contains(&idtxt) && r.matches("Authorisation {").count() >= want) {
                    c.w.violation("C18", "room-change-not-announced/room-update", format!("group added by m{} was acknowledged but no RoomModified event carries the room with that group", op.marker));
                }
            }
        }
        for k in need {
            c.w.probe("c18_change");
            if !c.events_data.contains(&k) {
                c.w.violation(
                    "C18",
                    &format!("change-not-announced/{}", kind_s(&op.kind)),
                    format!("acknowledged {} m{} touched ({}, {}) but no DataChanged event names that room, entity and day (announced: {:?})", kind_s(&op.kind), op.marker, k.1, k.2, c.events_data.iter().map(|x| (x.1.clone(), x.2)).collect::<Vec<_>>()),
                );
            }
        }
    }
    Ok(())
}
