//! Engine `lock` (C20): the real `RoomLockService` actor under seeded message schedules.
//! The service is a single actor: the order of the messages it receives is its schedule, and the
//! simulator decides that order. Clients are abstract and well behaved (they release what they were
//! granted); the connection-loop part of C20 (a grant left unread when a connection ends) is exercised
//! with the real `LocalPeerService` loop in the `conn` engine.
use crate::kit::Rng;
use crate::world::{Trace, World};
use discret::verif::{RoomLockService, Uid};
use serde::{Deserialize, Serialize};
use std::collections::{BTreeMap, BTreeSet, VecDeque};
use tokio::sync::mpsc;

#[derive(Clone, Debug, Serialize, Deserialize)]
pub struct Cfg {
    pub limit: usize,
    pub conns: usize,
    pub rooms: usize,
}

#[derive(Clone, Debug, Serialize, Deserialize)]
#[serde(tag = "t")]
pub enum Step {
    /// connection `c` requests locks on rooms (a waiting peer may repeat or extend its request)
    Req { c: usize, rooms: Vec<usize> },
    /// connection `c` releases one room it holds (index into its held list, modulo)
    Release { c: usize, i: usize },
    /// release of a room nobody holds (or a second release of a room just released)
    StrayUnlock { room: usize },
    /// connection `c` ends: it releases everything it was granted, then its receiver is dropped
    End { c: usize },
    /// the receiver of `c` is dropped while it still waits (nothing held): later grants cannot be delivered
    DropWaiting { c: usize },
}

fn room_uid(i: usize) -> Uid {
    let mut u = [0u8; 16];
    u[0] = 0xA0;
    u[15] = i as u8 + 1;
    u
}
fn circuit(c: usize, gen: usize) -> [u8; 32] {
    let mut k = [0u8; 32];
    k[0] = c as u8 + 1;
    k[1] = gen as u8;
    k
}

pub fn generate(seed: u64, property: &str, thorough: bool) -> Trace {
    let mut rc = Rng::stream(seed, "config");
    let mut rs = Rng::stream(seed, "schedule");
    let cfg = Cfg { limit: 1 + rc.usize(2), conns: 1 + rc.usize(3), rooms: 1 + rc.usize(3) };
    let n = if thorough { 10 + rs.usize(50) } else { 5 + rs.usize(35) };
    let mut steps = vec![];
    for _ in 0..n {
        let c = rs.usize(cfg.conns);
        match rs.weighted(&[40, 35, 8, 10, 7]) {
            0 => {
                let k = 1 + rs.usize(cfg.rooms);
                let mut rooms: Vec<usize> = (0..k).map(|_| rs.usize(cfg.rooms)).collect();
                rooms.dedup();
                steps.push(Step::Req { c, rooms });
            }
            1 => steps.push(Step::Release { c, i: rs.usize(4) }),
            2 => steps.push(Step::StrayUnlock { room: rs.usize(cfg.rooms) }),
            3 => steps.push(Step::End { c }),
            _ => steps.push(Step::DropWaiting { c }),
        }
    }
    Trace {
        engine: "lock".into(),
        property: property.into(),
        seed,
        cfg: serde_json::to_value(&cfg).unwrap(),
        steps: steps.iter().map(|s| serde_json::to_value(s).unwrap()).collect(),
        expect_fingerprint: None,
        note: None,
    }
}

pub fn directed(property: &str) -> Vec<Trace> {
    let mk = |name: &str, cfg: Cfg, steps: Vec<Step>| Trace {
        engine: "lock".into(),
        property: property.into(),
        seed: 0,
        cfg: serde_json::to_value(&cfg).unwrap(),
        steps: steps.iter().map(|s| serde_json::to_value(s).unwrap()).collect(),
        expect_fingerprint: None,
        note: Some(name.to_string()),
    };
    vec![
        mk(
            "C20 waiting peer repeats its request while the limit is reached",
            Cfg { limit: 1, conns: 2, rooms: 2 },
            vec![
                Step::Req { c: 0, rooms: vec![0, 1] },
                Step::Req { c: 1, rooms: vec![0, 1] },
                Step::Req { c: 1, rooms: vec![1] },
                Step::Release { c: 0, i: 0 },
                Step::Release { c: 1, i: 0 },
                Step::Release { c: 0, i: 0 },
            ],
        ),
        mk(
            "C20 unlock of a room not held while the limit is reached",
            Cfg { limit: 1, conns: 2, rooms: 2 },
            vec![
                Step::Req { c: 0, rooms: vec![0] },
                Step::Req { c: 1, rooms: vec![1] },
                Step::StrayUnlock { room: 1 },
                Step::StrayUnlock { room: 1 },
                Step::Release { c: 0, i: 0 },
            ],
        ),
        mk(
            "C20 a waiting connection disappears, another wants the same room",
            Cfg { limit: 2, conns: 3, rooms: 1 },
            vec![
                Step::Req { c: 0, rooms: vec![0] },
                Step::Req { c: 1, rooms: vec![0] },
                Step::Req { c: 2, rooms: vec![0] },
                Step::DropWaiting { c: 1 },
                Step::Release { c: 0, i: 0 },
            ],
        ),
    ]
}

struct Conn {
    gen: usize,
    tx: Option<mpsc::UnboundedSender<Uid>>,
    rx: Option<mpsc::UnboundedReceiver<Uid>>,
    held: Vec<usize>,
    wanted: BTreeSet<usize>,
}

pub fn execute(trace: &Trace, keep_log: bool) -> (crate::kit::RunReport, Vec<String>) {
    let cfg: Cfg = serde_json::from_value(trace.cfg.clone()).expect("bad lock cfg");
    let steps: Vec<Step> = trace.steps.iter().filter_map(|s| serde_json::from_value(s.clone()).ok()).collect();
    let mut w = World::new("lock", trace.seed, keep_log);
    let rt = tokio::runtime::Builder::new_current_thread()
        .enable_all()
        .start_paused(true)
        .rng_seed(tokio::runtime::RngSeed::from_bytes(&trace.seed.to_le_bytes()))
        .build()
        .unwrap();
    let svc = rt.block_on(async { RoomLockService::start(cfg.limit) });
    let mut conns: Vec<Conn> = (0..cfg.conns)
        .map(|_| {
            let (tx, rx) = mpsc::unbounded_channel();
            Conn { gen: 0, tx: Some(tx), rx: Some(rx), held: vec![], wanted: BTreeSet::new() }
        })
        .collect();
    // model
    let mut locked: BTreeMap<usize, usize> = BTreeMap::new();
    let mut last_released: Option<usize> = None;
    let mut grants = 0u64;
    let settle = |rt: &tokio::runtime::Runtime| {
        rt.block_on(async {
            let m = tokio::runtime::Handle::current().metrics();
            let mut last = m.worker_poll_count(0);
            let mut stable = 0;
            while stable < 3 {
                tokio::task::yield_now().await;
                let now = m.worker_poll_count(0);
                if now == last {
                    stable += 1
                } else {
                    stable = 0
                }
                last = now;
            }
        })
    };
    // collect the grants every live connection received; checks exclusivity, bound, once-per-request
    fn collect(w: &mut World, conns: &mut Vec<Conn>, locked: &mut BTreeMap<usize, usize>, limit: usize, rooms: usize, grants: &mut u64) {
        for (ci, c) in conns.iter_mut().enumerate() {
            if let Some(rx) = c.rx.as_mut() {
                while let Ok(uid) = rx.try_recv() {
                    let room = (0..rooms).find(|r| room_uid(*r) == uid).unwrap_or(99);
                    *grants += 1;
                    w.log.sched(format!("grant c{ci} r{room}"));
                    if let Some(h) = locked.get(&room) {
                        w.violation("C20", "double-grant", format!("room {room} granted to connection {ci} while connection {h} still holds it"));
                    }
                    if !c.wanted.remove(&room) {
                        w.violation("C20", "grant-without-request", format!("room {room} granted to connection {ci} which has no pending request for it"));
                    }
                    locked.insert(room, ci);
                    c.held.push(room);
                    if locked.len() > limit {
                        w.violation("C20", "over-limit", format!("{} rooms are locked at once, the limit is {limit}", locked.len()));
                    }
                }
            }
        }
    }
    for (i, st) in steps.iter().enumerate() {
        w.step_no = i + 1;
        match st {
            Step::Req { c, rooms } => {
                let ci = *c % cfg.conns;
                let conn = &mut conns[ci];
                if conn.tx.is_none() {
                    // a new connection takes the slot
                    let (tx, rx) = mpsc::unbounded_channel();
                    conn.gen += 1;
                    conn.tx = Some(tx);
                    conn.rx = Some(rx);
                }
                // one message names a room once (the real caller sends the de-duplicated room list of the peer)
                let mut uniq: Vec<usize> = vec![];
                for r in rooms {
                    let r = *r % cfg.rooms;
                    if !uniq.contains(&r) {
                        uniq.push(r);
                    }
                }
                let rooms = &uniq;
                let q: VecDeque<Uid> = rooms.iter().map(|r| room_uid(*r % cfg.rooms)).collect();
                for r in rooms {
                    let r = *r % cfg.rooms;
                    // a room the connection already holds is not requested again by a well-behaved client
                    if !conn.held.contains(&r) {
                        conn.wanted.insert(r);
                    }
                }
                let q: VecDeque<Uid> = q.into_iter().filter(|u| !conn.held.iter().any(|h| room_uid(*h) == *u)).collect();
                if q.is_empty() {
                    continue;
                }
                let (s, id, tx) = (svc.clone(), circuit(ci, conn.gen), conn.tx.clone().unwrap());
                w.log.sched(format!("req c{ci} n={}", q.len()));
                rt.block_on(async move { s.request_locks(id, q, tx).await });
            }
            Step::Release { c, i } => {
                let ci = *c % cfg.conns;
                if conns[ci].held.is_empty() {
                    continue;
                }
                let k = *i % conns[ci].held.len();
                let room = conns[ci].held.remove(k);
                locked.remove(&room);
                last_released = Some(room);
                let s = svc.clone();
                w.log.sched(format!("release c{ci} r{room}"));
                rt.block_on(async move { s.unlock(room_uid(room)).await });
            }
            Step::StrayUnlock { room } => {
                let room = match last_released {
                    Some(r) if !locked.contains_key(&r) => r,
                    _ => *room % cfg.rooms,
                };
                if locked.contains_key(&room) {
                    continue;
                }
                let s = svc.clone();
                w.log.sched(format!("stray-unlock r{room}"));
                w.fault("stray_unlock");
                rt.block_on(async move { s.unlock(room_uid(room)).await });
            }
            Step::End { c } => {
                let ci = *c % cfg.conns;
                settle(&rt);
                collect(&mut w, &mut conns, &mut locked, cfg.limit, cfg.rooms, &mut grants);
                let held: Vec<usize> = conns[ci].held.drain(..).collect();
                for room in held {
                    locked.remove(&room);
                    let s = svc.clone();
                    rt.block_on(async move { s.unlock(room_uid(room)).await });
                }
                conns[ci].tx = None;
                conns[ci].rx = None;
                conns[ci].wanted.clear();
                w.fault("connection_end");
                w.log.sched(format!("end c{ci}"));
            }
            Step::DropWaiting { c } => {
                let ci = *c % cfg.conns;
                settle(&rt);
                collect(&mut w, &mut conns, &mut locked, cfg.limit, cfg.rooms, &mut grants);
                if !conns[ci].held.is_empty() {
                    continue;
                }
                conns[ci].tx = None;
                conns[ci].rx = None;
                conns[ci].wanted.clear();
                w.fault("receiver_dropped_while_waiting");
                w.log.sched(format!("drop-waiting c{ci}"));
            }
        }
        settle(&rt);
        collect(&mut w, &mut conns, &mut locked, cfg.limit, cfg.rooms, &mut grants);
    }
    // bounded liveness: faults stop; holders release until nothing more is granted; every pending request
    // of a live connection must then have been granted
    w.step_no = steps.len() + 1;
    for _round in 0..(cfg.conns * cfg.rooms * 4 + 8) {
        let mut any = false;
        for ci in 0..cfg.conns {
            let held: Vec<usize> = conns[ci].held.drain(..).collect();
            for room in held {
                any = true;
                locked.remove(&room);
                let s = svc.clone();
                rt.block_on(async move { s.unlock(room_uid(room)).await });
                settle(&rt);
                collect(&mut w, &mut conns, &mut locked, cfg.limit, cfg.rooms, &mut grants);
            }
        }
        settle(&rt);
        collect(&mut w, &mut conns, &mut locked, cfg.limit, cfg.rooms, &mut grants);
        if !any && conns.iter().all(|c| c.held.is_empty()) {
            break;
        }
    }
    for (ci, c) in conns.iter().enumerate() {
        if c.rx.is_some() && !c.wanted.is_empty() {
            let ended = w.report.faults.contains_key("connection_end") || w.report.faults.contains_key("receiver_dropped_while_waiting");
            let shape = if ended { "after-a-connection-ended" } else { "all-connections-alive" };
            w.violation(
                "C20",
                &format!("request-never-granted/{shape}"),
                format!("connection {ci} still waits for rooms {:?} although every granted room was released and the service is idle", c.wanted),
            );
        }
    }
    w.probe(&format!("grants_{}", grants.min(9)));
    w.report.nontrivial = grants > 0;
    drop(svc);
    drop(rt);
    w.finish()
}
