//! Engine `rights`: 2-4 identities (one node each) sharing rooms whose definitions evolve.
//! C01: API verdicts equal those of an independent rights model R; a refused operation changes nothing.
//! C10: the in-memory room gives R's decisions live, after restart and on importers; restart always works.
//! C12: what one instance accepts, every peer holding the same definition stores; what it refuses, they refuse.
use crate::kit::{Rng, DAY_MS, T0};
use crate::net::{self, SessionEnd};
use crate::node::SimNode;
use crate::oracle;
use crate::world::{Trace, World};
use discret::verif as dv;
use discret::verif::{RightType, Uid};
use serde::{Deserialize, Serialize};
use std::collections::BTreeMap;

pub const MODEL: &str = "{
    Person{ name:String, parents:[Person], pet:Pet nullable }
    Pet{ name:String }
    Thing{ name:String }
}";
const ENTS: [&str; 3] = ["Person", "Pet", "Thing"];
/// rights can name an entity or the wildcard
const RIGHT_ENTS: [&str; 4] = ["Person", "Pet", "Thing", "*"];

#[derive(Clone, Debug, Serialize, Deserialize)]
pub struct Cfg {
    pub nodes: usize,
    pub skew: Vec<i64>,
    pub oracles: Vec<String>,
}

#[derive(Clone, Debug, Serialize, Deserialize)]
pub struct RightSpec {
    pub ent: usize,
    pub own: bool,
    pub all: bool,
}
#[derive(Clone, Debug, Serialize, Deserialize, Default)]
pub struct GroupSpec {
    pub users: Vec<usize>,
    pub user_admins: Vec<usize>,
    pub rights: Vec<RightSpec>,
}

#[derive(Clone, Debug, Serialize, Deserialize)]
#[serde(tag = "t")]
pub enum Step {
    NewRoom { who: usize, room: usize, admins: Vec<usize>, groups: Vec<GroupSpec>, dt: i64 },
    AddAdmin {
        who: usize,
        room: usize,
        key: usize,
        enabled: bool,
        dt: i64,
        /// only the new admin learns this change now: the other peers will receive it together with the next ones
        #[serde(default)]
        lag: bool,
    },
    AddGroup { who: usize, room: usize, spec: GroupSpec, dt: i64 },
    AddUser {
        who: usize,
        room: usize,
        group: usize,
        key: usize,
        enabled: bool,
        dt: i64,
        /// no barrier after this change: the next change is made by someone who has not seen it (concurrent changes)
        #[serde(default)]
        nb: bool,
    },
    AddUserAdmin { who: usize, room: usize, group: usize, key: usize, enabled: bool, dt: i64 },
    AddRight {
        who: usize,
        room: usize,
        group: usize,
        right: RightSpec,
        dt: i64,
        #[serde(default)]
        nb: bool,
    },
    Create {
        who: usize,
        row: usize,
        room: usize,
        ent: usize,
        dt: i64,
        /// length of the text when the row is meant to be close to the size limit (0: an ordinary row)
        #[serde(default)]
        big: usize,
    },
    Nested { who: usize, row: usize, room: usize, dt: i64 },
    Update {
        who: usize,
        row: usize,
        dt: i64,
        /// length of the new text when the row is meant to end close to the size limit (0: an ordinary text)
        #[serde(default)]
        big: usize,
    },
    Move { who: usize, row: usize, to: usize, dt: i64 },
    Delete { who: usize, row: usize, dt: i64 },
    RefAdd { who: usize, row: usize, target: usize, dt: i64 },
    /// the TARGET of an existing reference is renamed through a mutation of its (otherwise unchanged) source row
    UpdateThroughParent { who: usize, row: usize, target: usize, dt: i64 },
    /// a reference added and removed again by the same caller before any peer synchronises: the peers only ever
    /// receive the record of its removal
    RefAddDel { who: usize, row: usize, target: usize, dt: i64 },
    RefDel { who: usize, row: usize, target: usize, dt: i64 },
    SysMutate { who: usize, kind: usize, dt: i64 },
    Restart { node: usize },
    Grid,
    /// an instance that has never seen any room imports every room from the others, answers the decision grid, restarts, answers again
    LateJoin,
}

// ---------------------------------------------------------------------------------------
// R: independent rights model, written from the statements of C01 / C07 / C10
// ---------------------------------------------------------------------------------------
#[derive(Clone, Debug, Default)]
struct Entry {
    date: i64,
    enabled: bool,
}
#[derive(Clone, Debug, Default)]
struct RightEntry {
    date: i64,
    own: bool,
    all: bool,
}
#[derive(Clone, Debug, Default)]
struct GroupR {
    id: String,
    users: BTreeMap<usize, Vec<Entry>>,
    user_admins: BTreeMap<usize, Vec<Entry>>,
    rights: BTreeMap<String, Vec<RightEntry>>,
}
#[derive(Clone, Debug, Default)]
struct RoomR {
    id: String,
    uid: Uid,
    admins: BTreeMap<usize, Vec<Entry>>,
    groups: Vec<GroupR>,
    dates: Vec<i64>,
}

fn last_at(v: &[Entry], date: i64) -> Option<&Entry> {
    v.iter().filter(|e| e.date <= date).last()
}
impl RoomR {
    fn is_admin(&self, k: usize, date: i64) -> bool {
        self.admins.get(&k).and_then(|v| last_at(v, date)).map(|e| e.enabled).unwrap_or(false)
    }
    fn member_of(&self, g: &GroupR, k: usize, date: i64) -> bool {
        g.users.get(&k).and_then(|v| last_at(v, date)).map(|e| e.enabled).unwrap_or(false)
            || g.user_admins.get(&k).and_then(|v| last_at(v, date)).map(|e| e.enabled).unwrap_or(false)
    }
    fn is_user_admin(&self, gi: usize, k: usize, date: i64) -> bool {
        self.groups.get(gi).and_then(|g| g.user_admins.get(&k)).and_then(|v| last_at(v, date)).map(|e| e.enabled).unwrap_or(false)
    }
    fn is_member(&self, k: usize, date: i64) -> bool {
        self.is_admin(k, date) || self.groups.iter().any(|g| self.member_of(g, k, date))
    }
    /// `all == false`: the own-rows right (granted by own or by all); `all == true`: the all-rows right
    fn can(&self, k: usize, entity: &str, date: i64, all: bool) -> bool {
        let admin = self.is_admin(k, date);
        for g in &self.groups {
            if !(admin || self.member_of(g, k, date)) {
                continue;
            }
            let pick = |name: &str| -> Option<&RightEntry> { g.rights.get(name).and_then(|v| v.iter().filter(|r| r.date <= date).last()) };
            let r = pick(entity).or_else(|| pick("*"));
            if let Some(r) = r {
                if (all && r.all) || (!all && (r.own || r.all)) {
                    return true;
                }
            }
        }
        false
    }
}

#[derive(Clone, Debug)]
struct RowR {
    id: Option<String>,
    ent: usize,
    room: usize,
    author: usize,
    alive: bool,
}

struct Ctx {
    w: World,
    cfg: Cfg,
    rooms: Vec<Option<RoomR>>,
    rows: Vec<RowR>,
    now: i64,
    any: bool,
    ops: u64,
    /// rows already reported as not verifying (C06), so that one bad row gives one report
    sig_reported: std::collections::HashSet<String>,
}

fn has(cfg: &Cfg, o: &str) -> bool {
    cfg.oracles.iter().any(|x| x == o)
}

// ---------------------------------------------------------------------------------------
// generation
// ---------------------------------------------------------------------------------------
fn gen_group(r: &mut Rng, nodes: usize) -> GroupSpec {
    let mut g = GroupSpec::default();
    for k in 0..nodes {
        if r.chance(1, 2) {
            g.users.push(k);
        }
        if r.chance(1, 6) {
            g.user_admins.push(k);
        }
    }
    // one group in six has members but no right at all (a read-only group), one in six no user
    let nr = if r.chance(1, 6) { 0 } else { 1 + r.usize(3) };
    if r.chance(1, 6) {
        g.users.clear();
    }
    for _ in 0..nr {
        let all = r.chance(1, 3);
        let own = r.chance(2, 3);
        g.rights.push(RightSpec { ent: r.usize(RIGHT_ENTS.len()), own, all });
    }
    // one right entry per entity in a single mutation (entries of one mutation share their date)
    g.rights.sort_by_key(|x| x.ent);
    g.rights.dedup_by_key(|x| x.ent);
    g
}

pub fn generate(seed: u64, property: &str, thorough: bool) -> Trace {
    let mut rc = Rng::stream(seed, "config");
    let mut rw = Rng::stream(seed, "workload");
    let nodes = 2 + rc.usize(3);
    let skew: Vec<i64> = (0..nodes).map(|_| *rc.pick(&[0i64, 0, 0, 1, -1, 3])).collect();
    let cfg = Cfg { nodes, skew, oracles: vec![property.to_string()] };
    let mut steps = vec![];
    let n_rooms = 1 + rc.usize(2);
    let mut groups_in_room: Vec<usize> = vec![];
    let mut admins_of_room: Vec<Vec<usize>> = vec![];
    // rooms first
    for room in 0..n_rooms {
        let who = rw.usize(nodes);
        let mut admins = vec![who];
        if rw.chance(1, 3) {
            admins.push(rw.usize(nodes));
            admins.dedup();
        }
        let ng = 1 + rw.usize(2);
        let groups: Vec<GroupSpec> = (0..ng).map(|_| gen_group(&mut rw, nodes)).collect();
        groups_in_room.push(ng);
        admins_of_room.push(admins.clone());
        steps.push(Step::NewRoom { who, room, admins, groups, dt: 20 });
    }
    let max_steps = if thorough { 25 + rw.usize(30) } else { 12 + rw.usize(20) };
    let mut nrows = 0usize;
    let c10 = property == "C10";
    while steps.len() < max_steps {
        let who = rw.usize(nodes);
        let room = rw.usize(n_rooms);
        let dt_def = 20 + *rw.pick(&[0i64, 1000, 3_600_000, DAY_MS]);
        // every data operation happens on a new day: with a barrier after each accepted operation the only difference
        // between peers is then on the last day, which the (single-entry) room summary always shows (known finding C03/summary-blind)
        let dt = DAY_MS * (1 + rw.below(2) as i64) + *rw.pick(&[1i64, 2, 1000, 3_600_000]);
        // weights: addadmin, addgroup, adduser, adduseradmin, addright, create, nested, update, move, delete, refadd, refdel, sys, restart, grid
        let w: [u32; 15] = if c10 {
            [8, 6, 14, 6, 14, 6, 2, 4, 2, 2, 2, 2, 1, 10, 12]
        } else {
            [4, 3, 8, 4, 8, 16, 6, 14, 8, 8, 6, 6, 3, 2, 3]
        };
        // two admins change the same group without having seen each other's change, then everybody synchronises
        if admins_of_room[room].len() >= 2 && rw.chance(if c10 { 1 } else { 0 }, 5) {
            let a = admins_of_room[room][0];
            let b = admins_of_room[room][1];
            let (x, y) = if rw.chance(1, 2) { (a, b) } else { (b, a) };
            let group = rw.usize(groups_in_room[room]);
            let right = RightSpec { ent: rw.usize(RIGHT_ENTS.len()), own: rw.chance(1, 2), all: rw.chance(1, 3) };
            if rw.chance(1, 2) {
                steps.push(Step::AddRight { who: x, room, group, right, dt: dt_def, nb: true });
                steps.push(Step::AddUser { who: y, room, group, key: rw.usize(nodes), enabled: rw.chance(1, 2), dt: 20 + rw.range(0, 2000), nb: false });
            } else {
                steps.push(Step::AddUser { who: x, room, group, key: rw.usize(nodes), enabled: rw.chance(1, 2), dt: dt_def, nb: true });
                steps.push(Step::AddRight { who: y, room, group, right, dt: 20 + rw.range(0, 2000), nb: false });
            }
            steps.push(Step::Grid);
            steps.push(Step::Restart { node: rw.usize(nodes) });
            steps.push(Step::Grid);
            continue;
        }
        if c10 && rw.chance(1, 12) {
            steps.push(Step::LateJoin);
            continue;
        }
        match rw.weighted(&w) {
            0 => {
                let key = rw.usize(nodes);
                if nodes >= 3 && key != who && rw.chance(1, 3) {
                    // the new admin changes the room before the other peers have seen that it is one
                    let group = rw.usize(groups_in_room[room]);
                    steps.push(Step::AddAdmin { who, room, key, enabled: true, dt: dt_def, lag: true });
                    if rw.chance(1, 2) {
                        let right = RightSpec { ent: rw.usize(RIGHT_ENTS.len()), own: rw.chance(1, 2), all: rw.chance(1, 3) };
                        steps.push(Step::AddRight { who: key, room, group, right, dt: 20 + rw.range(1000, 3_600_000), nb: false });
                    } else {
                        steps.push(Step::AddUser { who: key, room, group, key: rw.usize(nodes), enabled: rw.chance(2, 3), dt: 20 + rw.range(1000, 3_600_000), nb: false });
                    }
                    steps.push(Step::Grid);
                } else {
                    steps.push(Step::AddAdmin { who, room, key, enabled: rw.chance(2, 3), dt: dt_def, lag: false });
                }
            }
            1 => {
                steps.push(Step::AddGroup { who, room, spec: gen_group(&mut rw, nodes), dt: dt_def });
                groups_in_room[room] += 1;
            }
            2 => steps.push(Step::AddUser { who, room, group: rw.usize(groups_in_room[room]), key: rw.usize(nodes), enabled: rw.chance(1, 2), dt: dt_def, nb: false }),
            3 => steps.push(Step::AddUserAdmin { who, room, group: rw.usize(groups_in_room[room]), key: rw.usize(nodes), enabled: rw.chance(2, 3), dt: dt_def }),
            4 => {
                let all = rw.chance(1, 3);
                steps.push(Step::AddRight {
                    who,
                    room,
                    group: rw.usize(groups_in_room[room]),
                    right: RightSpec { ent: rw.usize(RIGHT_ENTS.len()), own: rw.chance(1, 2), all },
                    dt: dt_def,
                    nb: false,
                });
            }
            5 => {
                // one creation in ten is sized within a few hundred bytes of the 2 KB limit, on either side
                let big = if rw.chance(1, 10) { 1650 + rw.usize(460) } else { 0 };
                steps.push(Step::Create { who, row: nrows, room, ent: rw.usize(ENTS.len()), dt, big });
                nrows += 1;
            }
            6 => {
                steps.push(Step::Nested { who, row: nrows, room, dt });
                nrows += 1;
            }
            7 if nrows > 0 => {
                let big = if rw.chance(1, 12) { 1650 + rw.usize(460) } else { 0 };
                steps.push(Step::Update { who, row: rw.usize(nrows), dt, big })
            }
            8 if nrows > 0 && n_rooms > 1 => steps.push(Step::Move { who, row: rw.usize(nrows), to: rw.usize(n_rooms), dt }),
            9 if nrows > 0 => steps.push(Step::Delete { who, row: rw.usize(nrows), dt }),
            10 if nrows > 1 && rw.chance(1, 4) => {
                // a reference, then its target renamed through the referring row by somebody (possibly somebody else)
                let (row, target) = (rw.usize(nrows), rw.usize(nrows));
                steps.push(Step::RefAdd { who, row, target, dt });
                steps.push(Step::UpdateThroughParent { who: rw.usize(nodes), row, target, dt: 1000 + rw.range(0, DAY_MS) });
            }
            10 if nrows > 1 && rw.chance(1, 4) => steps.push(Step::RefAddDel { who, row: rw.usize(nrows), target: rw.usize(nrows), dt }),
            10 if nrows > 1 => steps.push(Step::RefAdd { who, row: rw.usize(nrows), target: rw.usize(nrows), dt }),
            11 if nrows > 1 => steps.push(Step::RefDel { who, row: rw.usize(nrows), target: rw.usize(nrows), dt }),
            12 => steps.push(Step::SysMutate { who, kind: rw.usize(6), dt }),
            13 => steps.push(Step::Restart { node: rw.usize(nodes) }),
            14 => steps.push(Step::Grid),
            _ => {}
        }
    }
    steps.push(Step::Grid);
    Trace {
        engine: "rights".into(),
        property: property.into(),
        seed,
        cfg: serde_json::to_value(&cfg).unwrap(),
        steps: steps.iter().map(|s| serde_json::to_value(s).unwrap()).collect(),
        expect_fingerprint: None,
        note: None,
    }
}

pub fn directed(property: &str) -> Vec<Trace> {
    let mk = |name: &str, nodes: usize, steps: Vec<Step>| Trace {
        engine: "rights".into(),
        property: property.into(),
        seed: 0,
        cfg: serde_json::to_value(&Cfg { nodes, skew: vec![0; nodes], oracles: vec![property.to_string()] }).unwrap(),
        steps: steps.iter().map(|s| serde_json::to_value(s).unwrap()).collect(),
        expect_fingerprint: None,
        note: Some(name.to_string()),
    };
    let full = |users: Vec<usize>| GroupSpec { users, user_admins: vec![], rights: vec![RightSpec { ent: 3, own: true, all: true }] };
    let own_only = |users: Vec<usize>| GroupSpec { users, user_admins: vec![], rights: vec![RightSpec { ent: 0, own: true, all: false }] };
    let mut out = vec![];
    match property {
        "C01" => {
            out.push(mk(
                "C01 member with rights only in room r2 moves a row out of r1",
                2,
                vec![
                    Step::NewRoom { who: 0, room: 0, admins: vec![0], groups: vec![full(vec![0])], dt: 20 },
                    Step::NewRoom { who: 0, room: 1, admins: vec![0], groups: vec![full(vec![0, 1])], dt: 20 },
                    Step::Create { who: 0, row: 0, room: 0, ent: 0, dt: DAY_MS, big: 0 },
                    Step::Move { who: 1, row: 0, to: 1, dt: DAY_MS },
                ],
            ));
            out.push(mk(
                "C01 right revoked between create and update",
                2,
                vec![
                    Step::NewRoom { who: 0, room: 0, admins: vec![0], groups: vec![own_only(vec![1])], dt: 20 },
                    Step::Create { who: 1, row: 0, room: 0, ent: 0, dt: DAY_MS, big: 0 },
                    Step::AddRight { who: 0, room: 0, group: 0, right: RightSpec { ent: 0, own: false, all: false }, dt: 1000, nb: false },
                    Step::Update { who: 1, row: 0, dt: DAY_MS, big: 0 },
                ],
            ));
            out.push(mk(
                "C01 right revoked in the room a row leaves, between its creation and its move (and granted again later)",
                2,
                vec![
                    Step::NewRoom { who: 0, room: 0, admins: vec![0], groups: vec![own_only(vec![1])], dt: 20 },
                    Step::NewRoom { who: 0, room: 1, admins: vec![0], groups: vec![full(vec![1])], dt: 20 },
                    Step::Create { who: 1, row: 0, room: 0, ent: 0, dt: DAY_MS, big: 0 },
                    Step::Create { who: 1, row: 1, room: 0, ent: 0, dt: 1000, big: 0 },
                    Step::AddRight { who: 0, room: 0, group: 0, right: RightSpec { ent: 0, own: false, all: false }, dt: 3_600_000, nb: false },
                    Step::Move { who: 1, row: 0, to: 1, dt: DAY_MS },
                    Step::AddRight { who: 0, room: 0, group: 0, right: RightSpec { ent: 0, own: true, all: false }, dt: 3_600_000, nb: false },
                    Step::Move { who: 1, row: 1, to: 1, dt: DAY_MS },
                ],
            ));
            out.push(mk(
                "C01 the references of a room definition removed directly (by an admin and by a plain member)",
                2,
                vec![
                    Step::NewRoom { who: 0, room: 0, admins: vec![0], groups: vec![own_only(vec![0, 1])], dt: 20 },
                    Step::SysMutate { who: 1, kind: 4, dt: 1000 },
                    Step::SysMutate { who: 1, kind: 5, dt: 1000 },
                    Step::SysMutate { who: 0, kind: 4, dt: 1000 },
                    Step::SysMutate { who: 0, kind: 5, dt: 1000 },
                    Step::Grid,
                    Step::Restart { node: 0 },
                    Step::Grid,
                ],
            ));
            out.push(mk(
                "C01 a foreign row renamed through the row that refers to it, with the own-rows right only",
                2,
                vec![
                    Step::NewRoom { who: 0, room: 0, admins: vec![0], groups: vec![own_only(vec![0, 1])], dt: 20 },
                    Step::Create { who: 0, row: 0, room: 0, ent: 0, dt: DAY_MS, big: 0 },
                    Step::Create { who: 0, row: 1, room: 0, ent: 0, dt: 1000, big: 0 },
                    Step::RefAdd { who: 0, row: 0, target: 1, dt: 1000 },
                    Step::UpdateThroughParent { who: 1, row: 0, target: 1, dt: DAY_MS },
                    Step::UpdateThroughParent { who: 0, row: 0, target: 1, dt: DAY_MS },
                ],
            ));
            out.push(mk(
                "C01 foreign row updated and its reference deleted with own-rows only",
                2,
                vec![
                    Step::NewRoom { who: 0, room: 0, admins: vec![0], groups: vec![own_only(vec![0, 1])], dt: 20 },
                    Step::Create { who: 0, row: 0, room: 0, ent: 0, dt: DAY_MS, big: 0 },
                    Step::Create { who: 1, row: 1, room: 0, ent: 0, dt: DAY_MS, big: 0 },
                    Step::RefAdd { who: 0, row: 0, target: 1, dt: DAY_MS },
                    Step::Update { who: 1, row: 0, dt: DAY_MS, big: 0 },
                    Step::RefDel { who: 1, row: 0, target: 1, dt: DAY_MS },
                ],
            ));
            out.push(mk(
                "C01 user admin of a group adds a user; plain user cannot",
                3,
                vec![
                    Step::NewRoom { who: 0, room: 0, admins: vec![0], groups: vec![GroupSpec { users: vec![2], user_admins: vec![1], rights: vec![RightSpec { ent: 0, own: true, all: false }] }], dt: 20 },
                    Step::AddUser { who: 2, room: 0, group: 0, key: 2, enabled: false, dt: 1000, nb: false },
                    Step::AddUser { who: 1, room: 0, group: 0, key: 2, enabled: false, dt: 1000, nb: false },
                ],
            ));
        }
        "C10" => {
            out.push(mk(
                "C10 user enabled, disabled, re-enabled, then restart",
                2,
                vec![
                    Step::NewRoom { who: 0, room: 0, admins: vec![0], groups: vec![own_only(vec![1])], dt: 20 },
                    Step::AddUser { who: 0, room: 0, group: 0, key: 1, enabled: false, dt: 1000, nb: false },
                    Step::AddUser { who: 0, room: 0, group: 0, key: 1, enabled: true, dt: 1000, nb: false },
                    Step::Grid,
                    Step::Restart { node: 0 },
                    Step::Grid,
                    Step::Restart { node: 1 },
                    Step::Grid,
                ],
            ));
            out.push(mk(
                "C10 right with all-rows but not own-rows, then reload",
                2,
                vec![
                    Step::NewRoom { who: 0, room: 0, admins: vec![0], groups: vec![GroupSpec { users: vec![1], user_admins: vec![], rights: vec![RightSpec { ent: 0, own: false, all: true }] }], dt: 20 },
                    Step::Grid,
                    Step::Restart { node: 0 },
                    Step::Grid,
                ],
            ));
            out.push(mk(
                "C10 two admins change the same group without seeing each other, merge on import, restart of the importer",
                3,
                vec![
                    Step::NewRoom { who: 0, room: 0, admins: vec![0, 1], groups: vec![own_only(vec![2])], dt: 20 },
                    Step::AddRight { who: 0, room: 0, group: 0, right: RightSpec { ent: 1, own: true, all: true }, dt: 1000, nb: true },
                    Step::AddUser { who: 1, room: 0, group: 0, key: 2, enabled: false, dt: 1000, nb: false },
                    Step::Grid,
                    Step::Restart { node: 1 },
                    Step::Grid,
                    Step::Restart { node: 0 },
                    Step::Grid,
                    Step::Restart { node: 2 },
                    Step::Grid,
                ],
            ));
            out.push(mk(
                "C10 several entries per key (admin disabled, user re-enabled, right replaced), then an instance that never saw the room imports it",
                2,
                vec![
                    Step::NewRoom { who: 0, room: 0, admins: vec![0, 1], groups: vec![own_only(vec![1])], dt: 20 },
                    Step::AddAdmin { who: 0, room: 0, key: 1, enabled: false, dt: 3_600_000, lag: false },
                    Step::AddUser { who: 0, room: 0, group: 0, key: 1, enabled: false, dt: DAY_MS, nb: false },
                    Step::AddUser { who: 0, room: 0, group: 0, key: 1, enabled: true, dt: DAY_MS, nb: false },
                    Step::AddRight { who: 0, room: 0, group: 0, right: RightSpec { ent: 0, own: false, all: false }, dt: DAY_MS, nb: false },
                    Step::LateJoin,
                    Step::Grid,
                ],
            ));
            out.push(mk(
                "C10 a group with members and no right, a group with rights and no member, a group with only a user admin: live, restarted, imported",
                3,
                vec![
                    Step::NewRoom {
                        who: 0,
                        room: 0,
                        admins: vec![0],
                        groups: vec![
                            GroupSpec { users: vec![1], user_admins: vec![], rights: vec![] },
                            GroupSpec { users: vec![], user_admins: vec![], rights: vec![RightSpec { ent: 0, own: true, all: false }] },
                            GroupSpec { users: vec![], user_admins: vec![2], rights: vec![] },
                        ],
                        dt: 20,
                    },
                    Step::Grid,
                    Step::Restart { node: 0 },
                    Step::Grid,
                    Step::Restart { node: 1 },
                    Step::Grid,
                    Step::LateJoin,
                    Step::AddRight { who: 0, room: 0, group: 0, right: RightSpec { ent: 0, own: true, all: false }, dt: 3_600_000, nb: false },
                    Step::Grid,
                ],
            ));
            out.push(mk(
                "C10 an admin is added and changes the room before the third peer has seen it: the third peer imports both versions at once",
                3,
                vec![
                    Step::NewRoom { who: 0, room: 0, admins: vec![0], groups: vec![own_only(vec![1, 2])], dt: 20 },
                    Step::AddAdmin { who: 0, room: 0, key: 1, enabled: true, dt: 3_600_000, lag: true },
                    Step::AddRight { who: 1, room: 0, group: 0, right: RightSpec { ent: 0, own: false, all: false }, dt: 3_600_000, nb: false },
                    Step::Grid,
                    Step::Restart { node: 2 },
                    Step::Grid,
                ],
            ));
            out.push(mk(
                "C10 rights replaced over time and an admin disabled, then restart of the importer",
                2,
                vec![
                    Step::NewRoom { who: 0, room: 0, admins: vec![0, 1], groups: vec![own_only(vec![1])], dt: 20 },
                    Step::AddRight { who: 0, room: 0, group: 0, right: RightSpec { ent: 0, own: false, all: false }, dt: DAY_MS, nb: false },
                    Step::AddRight { who: 0, room: 0, group: 0, right: RightSpec { ent: 3, own: true, all: false }, dt: DAY_MS, nb: false },
                    Step::AddAdmin { who: 0, room: 0, key: 1, enabled: false, dt: 1000, lag: false },
                    Step::Restart { node: 1 },
                    Step::Grid,
                ],
            ));
        }
        "C06" => {
            out.push(mk(
                "C06 a member with the all-rows right removes a reference from, updates, moves and deletes rows written by somebody else: everything stored still verifies",
                2,
                vec![
                    Step::NewRoom { who: 0, room: 0, admins: vec![0], groups: vec![full(vec![0, 1])], dt: 20 },
                    Step::Create { who: 0, row: 0, room: 0, ent: 0, dt: DAY_MS, big: 0 },
                    Step::Create { who: 0, row: 1, room: 0, ent: 0, dt: 1000, big: 0 },
                    Step::RefAdd { who: 0, row: 0, target: 1, dt: 1000 },
                    Step::RefDel { who: 1, row: 0, target: 1, dt: DAY_MS },
                    Step::RefAdd { who: 1, row: 0, target: 1, dt: 1000 },
                    Step::Update { who: 1, row: 1, dt: DAY_MS, big: 0 },
                    Step::Delete { who: 1, row: 1, dt: DAY_MS },
                ],
            ));
        }
        "C10late" => {}
        "C12" => {
            out.push(mk(
                "C12 reference deletion on a source row last written by someone else",
                2,
                vec![
                    Step::NewRoom { who: 0, room: 0, admins: vec![0], groups: vec![own_only(vec![0, 1])], dt: 20 },
                    Step::Create { who: 0, row: 0, room: 0, ent: 0, dt: DAY_MS, big: 0 },
                    Step::Create { who: 1, row: 1, room: 0, ent: 0, dt: DAY_MS, big: 0 },
                    Step::RefAdd { who: 0, row: 0, target: 1, dt: DAY_MS },
                    Step::RefDel { who: 0, row: 0, target: 1, dt: DAY_MS },
                ],
            ));
            out.push(mk(
                "C12 a reference added and removed by its author (own-rows right only) before the peer synchronises",
                2,
                vec![
                    Step::NewRoom { who: 0, room: 0, admins: vec![0], groups: vec![own_only(vec![0, 1])], dt: 20 },
                    Step::Create { who: 1, row: 0, room: 0, ent: 0, dt: DAY_MS, big: 0 },
                    Step::Create { who: 1, row: 1, room: 0, ent: 0, dt: 1000, big: 0 },
                    Step::RefAddDel { who: 1, row: 0, target: 1, dt: DAY_MS },
                    Step::Update { who: 1, row: 1, dt: DAY_MS, big: 0 },
                ],
            ));
            out.push(mk(
                "C12 creation refused locally (no right) offered to a peer",
                2,
                vec![
                    Step::NewRoom { who: 0, room: 0, admins: vec![0], groups: vec![own_only(vec![0])], dt: 20 },
                    Step::Create { who: 0, row: 0, room: 0, ent: 0, dt: DAY_MS, big: 0 },
                    Step::Create { who: 1, row: 1, room: 0, ent: 0, dt: DAY_MS, big: 0 },
                ],
            ));
        }
        _ => {}
    }
    out
}

// ---------------------------------------------------------------------------------------
// execution
// ---------------------------------------------------------------------------------------
pub fn execute(trace: &Trace, keep_log: bool) -> (crate::kit::RunReport, Vec<String>) {
    let cfg: Cfg = serde_json::from_value(trace.cfg.clone()).expect("bad rights cfg");
    let steps: Vec<Step> = trace.steps.iter().filter_map(|s| serde_json::from_value(s.clone()).ok()).collect();
    let w = World::new("rights", trace.seed, keep_log);
    let mut c = Ctx { w, cfg, rooms: vec![], rows: vec![], now: T0, any: false, ops: 0, sig_reported: Default::default() };
    if let Err(e) = setup(&mut c) {
        c.w.harness_error(format!("setup: {e}"));
        return c.w.finish();
    }
    let mut aborted = false;
    for (i, st) in steps.iter().enumerate() {
        c.w.step_no = i + 1;
        if let Err(e) = exec_step(&mut c, st) {
            if e != "node cannot restart" {
                c.w.harness_error(format!("step {i} {st:?}: {e}"));
            }
            aborted = true;
            break;
        }
        if !c.w.report.harness_errors.is_empty() {
            break;
        }
    }
    let _ = aborted;
    c.w.report.nontrivial = c.any;
    c.w.finish()
}

fn setup(c: &mut Ctx) -> Result<(), String> {
    let seed = c.w.report.seed;
    for i in 0..c.cfg.nodes {
        let mut conf = dv::Configuration::default();
        conf.parallelism = 1;
        conf.enable_multicast = false;
        conf.enable_beacons = false;
        conf.max_object_size_in_kb = 2;
        let mut n = SimNode::new(i, &format!("n{i}"), (10 + i * 20) as u8, &c.w.root, MODEL, conf, T0 + c.cfg.skew.get(i).cloned().unwrap_or(0), seed + i as u64);
        n.start()?;
        c.w.nodes.push(n);
    }
    Ok(())
}

fn sync_clocks(c: &mut Ctx) {
    for i in 0..c.w.nodes.len() {
        c.w.nodes[i].clock = c.now + c.cfg.skew.get(i).cloned().unwrap_or(0);
    }
}

fn key_b64(c: &Ctx, k: usize) -> String {
    dv::base64_encode(&c.w.nodes[k % c.cfg.nodes].vk)
}

fn group_text(c: &Ctx, g: &GroupSpec, name: &str) -> String {
    let users: Vec<String> = g.users.iter().map(|k| format!("{{verif_key:\"{}\"}}", key_b64(c, *k))).collect();
    let uadm: Vec<String> = g.user_admins.iter().map(|k| format!("{{verif_key:\"{}\"}}", key_b64(c, *k))).collect();
    let rights: Vec<String> = g
        .rights
        .iter()
        .map(|r| format!("{{entity:\"{}\" mutate_self:{} mutate_all:{}}}", RIGHT_ENTS[r.ent % 4], r.own, r.all))
        .collect();
    let mut s = format!("name:\"{name}\"");
    if !rights.is_empty() {
        s.push_str(&format!(" rights:[{}]", rights.join(",")));
    }
    if !users.is_empty() {
        s.push_str(&format!(" users:[{}]", users.join(",")));
    }
    if !uadm.is_empty() {
        s.push_str(&format!(" user_admin:[{}]", uadm.join(",")));
    }
    s
}

fn full_dump(c: &Ctx, node: usize) -> Result<Vec<String>, String> {
    let conn = c.w.nodes[node].oracle_conn()?;
    oracle::dump_all(&conn)
}

/// every node pulls every room from every other node until nothing changes (fault-free barrier)
fn barrier(c: &mut Ctx) -> Result<(), String> {
    let n = c.cfg.nodes;
    for _round in 0..(2 * n + 2) {
        let mut before = vec![];
        for i in 0..n {
            before.push(full_dump(c, i)?.len());
        }
        let before_d: Vec<Vec<String>> = (0..n).map(|i| full_dump(c, i)).collect::<Result<_, _>>()?;
        for p in 0..n {
            for s in 0..n {
                if p == s {
                    continue;
                }
                for r in 0..c.rooms.len() {
                    let Some(room) = c.rooms[r].as_ref() else { continue };
                    let uid = room.uid;
                    // the server must know the room
                    let (pn, sn) = c.w.two(p, s);
                    let known = oracle::dump_room(&sn.oracle_conn()?, &uid).map(|d| !d.nodes.is_empty() || !d.daily.is_empty()).unwrap_or(false);
                    let has_def = {
                        let conn = sn.oracle_conn()?;
                        dv::RoomDefinitionLog::get(&uid, &conn).map(|x| x.is_some()).unwrap_or(false)
                    };
                    if !has_def && !known {
                        continue;
                    }
                    let (end, mut sess) = net::pull(pn, sn, uid, None).map_err(|e| format!("barrier pull hung: {e:?}"))?;
                    sess.abandon();
                    if let SessionEnd::Err(e) = end {
                        c.w.log.log(format!("barrier pull n{p}<-n{s} room{r}: {e}"));
                    }
                }
            }
        }
        let after_d: Vec<Vec<String>> = (0..n).map(|i| full_dump(c, i)).collect::<Result<_, _>>()?;
        if before_d == after_d {
            break;
        }
    }
    for nn in &mut c.w.nodes {
        let _ = nn.drain_events();
    }
    for i in 0..n {
        check_stored_signatures(c, i, "after-synchronisation")?;
    }
    if has(&c.cfg, "C09") {
        // C09 under this engine's workload (moves between rooms, nested creations, rights-dependent refusals, several
        // authors): after the recomputation barrier the daily log of every room on every node is the function of its content
        for i in 0..n {
            if c.w.nodes[i].compute_daily_log().is_err() {
                continue;
            }
            let _ = c.w.nodes[i].drain_events();
            for r in 0..c.rooms.len() {
                let Some(room) = c.rooms[r].as_ref() else { continue };
                let uid = room.uid;
                let d = oracle::dump_room(&c.w.nodes[i].oracle_conn()?, &uid)?;
                c.w.probe("c09_log_checks");
                for (clause, detail) in oracle::check_daily_against_dump(&d) {
                    c.w.violation("C09", &clause, format!("n{i} room{r}: {detail} (rights workload)"));
                }
                // and it equals a from-scratch rebuild by the real computation
                if let Ok(rebuilt) = oracle::rebuild_daily(&d, &uid) {
                    let a: Vec<String> = d.daily.iter().map(|x| x.line()).collect();
                    let b: Vec<String> = rebuilt.iter().map(|x| x.line()).collect();
                    if a != b {
                        c.w.violation("C09", "history-depends-on-schedule", format!("n{i} room{r}: the stored log differs from a from-scratch rebuild: {} (rights workload)", oracle::first_diff(&a, &b).unwrap_or_default()));
                    }
                }
            }
        }
    }
    Ok(())
}

/// C06: every stored row, reference and deletion record verifies against its own signature exactly as stored
fn check_stored_signatures(c: &mut Ctx, node: usize, when: &str) -> Result<(), String> {
    if !has(&c.cfg, "C06") {
        return Ok(());
    }
    let bad = oracle::verify_stored_signatures(&c.w.nodes[node].oracle_conn()?)?;
    c.w.probe("c06_signature_sweeps");
    for (kind, what) in bad {
        if !c.sig_reported.insert(what.clone()) {
            continue;
        }
        c.w.violation("C06", &format!("stored-signature-invalid/{kind}/{when}"), format!("n{node} stores a {kind} whose signature does not verify against it as stored: {what}"));
    }
    Ok(())
}

/// run a mutation / deletion on `who`, compare its verdict with R's, check that a refusal changed nothing
fn attempt(c: &mut Ctx, who: usize, shape: &str, expected: Option<bool>, missing: &str, is_delete: bool, q: &str, p: Option<String>) -> Result<Result<String, String>, String> {
    let before = if has(&c.cfg, "C01") { Some(full_dump(c, who)?) } else { None };
    let res = if is_delete {
        c.w.nodes[who].delete(q, p.as_deref()).map(|_| String::new())
    } else {
        c.w.nodes[who].mutate(q, p.as_deref())
    };
    if let Err(e) = &res {
        if e.starts_with("HUNG") {
            return Err(e.clone());
        }
    }
    c.ops += 1;
    c.any = true;
    c.w.log.sched(format!("{shape} by n{who} expected={expected:?} got={}", res.is_ok()));
    if res.is_ok() {
        check_stored_signatures(c, who, &format!("after-local-{}", shape.split(':').next().unwrap_or(shape)))?;
    }
    if let Err(e) = &res {
        c.w.log.log(format!("  refused: {e}"));
    }
    if has(&c.cfg, "C01") {
        if let Some(exp) = expected {
            c.w.probe(if exp { "c01_expected_allowed" } else { "c01_expected_refused" });
            if res.is_ok() && !exp {
                c.w.violation("C01", &format!("accepted-but-denied/{shape}:{missing}"), format!("n{who} performed {shape} although the room's definition does not grant it ({missing})"));
            }
            if res.is_err() && exp {
                let e = res.clone().err().unwrap_or_default();
                if e.contains("malformed") {
                    // the write itself failed in the storage engine: the full-text index does not hold the text it is asked
                    // to remove (rows stored by the synchronisation path are never indexed, C17's open finding)
                    c.w.violation("C01", "refused-but-allowed/full-text-index-error", format!("n{who} was refused {shape} although the room's definition grants it: {e}"));
                } else {
                    c.w.violation("C01", &format!("refused-but-allowed/{shape}"), format!("n{who} was refused {shape} although the room's definition grants it: {e}"));
                }
            }
        }
        if res.is_err() {
            let after = full_dump(c, who)?;
            if Some(&after) != before.as_ref() {
                let diff = oracle::first_diff(before.as_ref().unwrap(), &after).unwrap_or_default();
                c.w.violation("C01", &format!("refused-changed-state/{shape}"), format!("{shape} was refused on n{who} but its database changed: {diff}"));
            }
        }
    }
    Ok(res)
}

fn row_info(c: &Ctx, row: usize) -> Option<(String, usize, usize, usize)> {
    let r = c.rows.get(row)?;
    if !r.alive {
        return None;
    }
    Some((r.id.clone()?, r.ent, r.room, r.author))
}

fn exec_step(c: &mut Ctx, st: &Step) -> Result<(), String> {
    let n = c.cfg.nodes;
    match st {
        Step::NewRoom { who, room, admins, groups, dt } => {
            let who = *who % n;
            c.now += dt.max(&20);
            sync_clocks(c);
            while c.rooms.len() <= *room {
                c.rooms.push(None);
            }
            if c.rooms[*room].is_some() {
                return Ok(());
            }
            let mut admins: Vec<usize> = admins.iter().map(|a| *a % n).collect();
            if !admins.contains(&who) {
                admins.insert(0, who);
            }
            let adm: Vec<String> = admins.iter().map(|k| format!("{{verif_key:\"{}\"}}", key_b64(c, *k))).collect();
            let gs: Vec<String> = groups.iter().enumerate().map(|(i, g)| format!("{{{}}}", group_text(c, g, &format!("g{i}")))).collect();
            let q = format!("mutate {{ sys.Room{{ admin:[{}] authorisations:[{}] }} }}", adm.join(","), gs.join(","));
            let date = c.w.nodes[who].clock;
            let res = attempt(c, who, "room-create", Some(true), "-", false, &q, None)?;
            if let Ok(r) = res {
                let v: serde_json::Value = serde_json::from_str(&r).map_err(|e| e.to_string())?;
                let id = v["sys.Room"]["id"].as_str().ok_or("no room id")?.to_string();
                let mut rr = RoomR { id: id.clone(), uid: dv::uid_decode(&id).map_err(|e| e.to_string())?, ..Default::default() };
                for k in &admins {
                    rr.admins.entry(*k).or_default().push(Entry { date, enabled: true });
                }
                let garr = v["sys.Room"]["authorisations"].as_array().cloned().unwrap_or_default();
                for (i, g) in groups.iter().enumerate() {
                    let gid = garr.get(i).and_then(|x| x["id"].as_str()).unwrap_or("").to_string();
                    rr.groups.push(group_r(g, gid, date, n));
                }
                rr.dates.push(date);
                c.rooms[*room] = Some(rr);
                barrier(c)?;
                after_def_change(c)?;
            }
        }
        Step::AddAdmin { who, room, key, enabled, dt, lag } => {
            let (who, key) = (*who % n, *key % n);
            let Some(rr) = c.rooms.get(*room).cloned().flatten() else { return Ok(()) };
            c.now += dt.max(&20);
            sync_clocks(c);
            let date = c.w.nodes[who].clock;
            let exp = rr.is_admin(who, date);
            // an admin disabling itself is refused by design (the existing test suite documents it): no expectation there
            let exp = if key == who && !*enabled && exp { None } else { Some(exp) };
            let q = format!("mutate {{ sys.Room{{ id:\"{}\" admin:[{{verif_key:\"{}\" enabled:{}}}] }} }}", rr.id, key_b64(c, key), enabled);
            let res = attempt(c, who, "room-add-admin", exp, "not-admin", false, &q, None)?;
            if res.is_ok() {
                let r = c.rooms[*room].as_mut().unwrap();
                r.admins.entry(key).or_default().push(Entry { date, enabled: *enabled });
                r.dates.push(date);
                if *lag && key != who {
                    // only the new admin pulls: the others skip this version
                    let uid = c.rooms[*room].as_ref().unwrap().uid;
                    let (pn, sn) = c.w.two(key, who);
                    let (_end, mut sess) = net::pull(pn, sn, uid, None).map_err(|e| format!("lagging pull hung: {e:?}"))?;
                    sess.abandon();
                    let _ = c.w.nodes[key].drain_events();
                    c.w.fault("definition_version_skipped_by_the_other_peers");
                } else {
                    barrier(c)?;
                    after_def_change(c)?;
                }
            }
        }
        Step::AddGroup { who, room, spec, dt } => {
            let who = *who % n;
            let Some(rr) = c.rooms.get(*room).cloned().flatten() else { return Ok(()) };
            c.now += dt.max(&20);
            sync_clocks(c);
            let date = c.w.nodes[who].clock;
            let exp = rr.is_admin(who, date);
            let name = format!("g{}", rr.groups.len());
            let q = format!("mutate {{ sys.Room{{ id:\"{}\" authorisations:[{{{}}}] }} }}", rr.id, group_text(c, spec, &name));
            let res = attempt(c, who, "room-add-group", Some(exp), "not-admin", false, &q, None)?;
            if let Ok(r) = res {
                let v: serde_json::Value = serde_json::from_str(&r).map_err(|e| e.to_string())?;
                let gid = v["sys.Room"]["authorisations"][0]["id"].as_str().unwrap_or("").to_string();
                let g = group_r(spec, gid, date, n);
                let rm = c.rooms[*room].as_mut().unwrap();
                rm.groups.push(g);
                rm.dates.push(date);
                barrier(c)?;
                after_def_change(c)?;
            }
        }
        Step::AddUser { who, room, group, key, enabled, dt, .. } | Step::AddUserAdmin { who, room, group, key, enabled, dt } => {
            let nb = matches!(st, Step::AddUser { nb: true, .. });
            let (who, key) = (*who % n, *key % n);
            let is_ua = matches!(st, Step::AddUserAdmin { .. });
            let Some(rr) = c.rooms.get(*room).cloned().flatten() else { return Ok(()) };
            if rr.groups.is_empty() {
                return Ok(());
            }
            let gi = *group % rr.groups.len();
            c.now += dt.max(&20);
            sync_clocks(c);
            let date = c.w.nodes[who].clock;
            let exp = if is_ua { rr.is_admin(who, date) } else { rr.is_admin(who, date) || rr.is_user_admin(gi, who, date) };
            let field = if is_ua { "user_admin" } else { "users" };
            let q = format!(
                "mutate {{ sys.Room{{ id:\"{}\" authorisations:[{{ id:\"{}\" {field}:[{{verif_key:\"{}\" enabled:{}}}] }}] }} }}",
                rr.id,
                rr.groups[gi].id,
                key_b64(c, key),
                enabled
            );
            let shape = if is_ua { "room-add-user-admin" } else if rr.is_admin(who, date) { "room-add-user" } else { "room-add-user-by-user-admin" };
            let res = attempt(c, who, shape, Some(exp), if is_ua { "not-admin" } else { "neither-admin-nor-user-admin" }, false, &q, None)?;
            if res.is_ok() {
                let rm = c.rooms[*room].as_mut().unwrap();
                let g = &mut rm.groups[gi];
                if is_ua {
                    g.user_admins.entry(key).or_default().push(Entry { date, enabled: *enabled });
                } else {
                    g.users.entry(key).or_default().push(Entry { date, enabled: *enabled });
                }
                rm.dates.push(date);
                if nb {
                    c.w.fault("concurrent_definition_change");
                } else {
                    barrier(c)?;
                    after_def_change(c)?;
                }
            }
        }
        Step::AddRight { who, room, group, right, dt, nb } => {
            let who = *who % n;
            let Some(rr) = c.rooms.get(*room).cloned().flatten() else { return Ok(()) };
            if rr.groups.is_empty() {
                return Ok(());
            }
            let gi = *group % rr.groups.len();
            c.now += dt.max(&20);
            sync_clocks(c);
            let date = c.w.nodes[who].clock;
            let exp = rr.is_admin(who, date);
            let q = format!(
                "mutate {{ sys.Room{{ id:\"{}\" authorisations:[{{ id:\"{}\" rights:[{{entity:\"{}\" mutate_self:{} mutate_all:{}}}] }}] }} }}",
                rr.id,
                rr.groups[gi].id,
                RIGHT_ENTS[right.ent % 4],
                right.own,
                right.all
            );
            let res = attempt(c, who, "room-add-right", Some(exp), "not-admin", false, &q, None)?;
            if res.is_ok() {
                let rm = c.rooms[*room].as_mut().unwrap();
                rm.groups[gi].rights.entry(RIGHT_ENTS[right.ent % 4].to_string()).or_default().push(RightEntry { date, own: right.own, all: right.all });
                rm.dates.push(date);
                if *nb {
                    c.w.fault("concurrent_definition_change");
                } else {
                    barrier(c)?;
                    after_def_change(c)?;
                }
            }
        }
        Step::Create { who, row, room, ent, dt, big } => {
            let who = *who % n;
            let ent = *ent % 3;
            let Some(rr) = c.rooms.get(*room).cloned().flatten() else { return Ok(()) };
            while c.rows.len() <= *row {
                c.rows.push(RowR { id: None, ent, room: *room, author: who, alive: false });
            }
            if c.rows[*row].id.is_some() {
                return Ok(());
            }
            c.now += dt.max(&1);
            sync_clocks(c);
            let date = c.w.nodes[who].clock;
            let exp = rr.can(who, ENTS[ent], date, false);
            let q = format!("mutate {{ {}{{ room_id:$r name:$n }} }}", ENTS[ent]);
            let text = if *big > 0 { format!("row{row} {}", "x".repeat(*big)) } else { format!("row{row} v{}", c.ops) };
            let p = serde_json::json!({"r": rr.id, "n": text}).to_string();
            // a row close to the size limit may be refused for its size: no expectation from the rights then
            let expectation = if *big > 0 { None } else { Some(exp) };
            if *big > 0 {
                c.w.fault("row_close_to_the_size_limit");
            }
            let res = attempt(c, who, if *big > 0 { "create-close-to-the-size-limit" } else { "create" }, expectation, "no-own-rows-right", false, &q, Some(p))?;
            match res {
                Ok(r) => {
                    let v: serde_json::Value = serde_json::from_str(&r).map_err(|e| e.to_string())?;
                    c.rows[*row] = RowR { id: v[ENTS[ent]]["id"].as_str().map(|s| s.to_string()), ent, room: *room, author: who, alive: true };
                    after_data_op(c, who, true)?;
                }
                Err(_) => {
                    if has(&c.cfg, "C12") && !exp {
                        offer_refused_create(c, who, *room, ent)?;
                    }
                }
            }
        }
        Step::Nested { who, row, room, dt } => {
            let who = *who % n;
            let Some(rr) = c.rooms.get(*room).cloned().flatten() else { return Ok(()) };
            while c.rows.len() <= *row {
                c.rows.push(RowR { id: None, ent: 0, room: *room, author: who, alive: false });
            }
            if c.rows[*row].id.is_some() {
                return Ok(());
            }
            c.now += dt.max(&1);
            sync_clocks(c);
            let date = c.w.nodes[who].clock;
            // parent Person with an inherited-room Pet child: both entities need the own-rows right
            let exp = rr.can(who, "Person", date, false) && rr.can(who, "Pet", date, false);
            let missing = if !rr.can(who, "Person", date, false) { "no-own-rows-right-on-parent" } else { "no-own-rows-right-on-child" };
            let p = serde_json::json!({"r": rr.id, "n": format!("row{row} v{}", c.ops), "c": format!("row{row} pet")}).to_string();
            let res = attempt(c, who, "nested-create", Some(exp), missing, false, "mutate { Person{ room_id:$r name:$n pet:{name:$c} } }", Some(p))?;
            if let Ok(r) = res {
                let v: serde_json::Value = serde_json::from_str(&r).map_err(|e| e.to_string())?;
                c.rows[*row] = RowR { id: v["Person"]["id"].as_str().map(|s| s.to_string()), ent: 0, room: *room, author: who, alive: true };
                after_data_op(c, who, true)?;
            }
        }
        Step::Update { who, row, dt, big } => {
            let who = *who % n;
            let Some((id, ent, room, author)) = row_info(c, *row) else { return Ok(()) };
            let Some(rr) = c.rooms.get(room).cloned().flatten() else { return Ok(()) };
            c.now += dt.max(&1);
            sync_clocks(c);
            let date = c.w.nodes[who].clock;
            let own = author == who;
            let exp = rr.can(who, ENTS[ent], date, !own);
            let q = format!("mutate {{ {}{{ id:$id name:$n }} }}", ENTS[ent]);
            let text = if *big > 0 { format!("row{row} {}", "y".repeat(*big)) } else { format!("row{row} v{}", c.ops) };
            let p = serde_json::json!({"id": id, "n": text}).to_string();
            let expectation = if *big > 0 { None } else { Some(exp) };
            if *big > 0 {
                c.w.fault("row_close_to_the_size_limit");
            }
            let res = attempt(c, who, if *big > 0 { "update-close-to-the-size-limit" } else if own { "update-own" } else { "update-foreign" }, expectation, if own { "no-own-rows-right" } else { "no-all-rows-right" }, false, &q, Some(p))?;
            if res.is_ok() {
                c.rows[*row].author = who;
                after_data_op(c, who, true)?;
            } else if has(&c.cfg, "C12") && !exp && *big == 0 {
                offer_refused_change(c, who, *row, false)?;
            }
        }
        Step::Move { who, row, to, dt } => {
            let who = *who % n;
            let Some((id, ent, room, author)) = row_info(c, *row) else { return Ok(()) };
            let Some(r_from) = c.rooms.get(room).cloned().flatten() else { return Ok(()) };
            let Some(r_to) = c.rooms.get(*to).cloned().flatten() else { return Ok(()) };
            if room == *to {
                return Ok(());
            }
            c.now += dt.max(&1);
            sync_clocks(c);
            let date = c.w.nodes[who].clock;
            let own = author == who;
            let leave = r_from.can(who, ENTS[ent], date, !own);
            let enter = r_to.can(who, ENTS[ent], date, !own);
            let exp = leave && enter;
            let missing = if !leave && !enter { "no-right-in-both-rooms" } else if !leave { "no-right-in-the-room-it-leaves" } else { "no-right-in-the-room-it-enters" };
            // (a mutation naming only id and room_id changes nothing at all: a field is written too)
            let q = format!("mutate {{ {}{{ id:$id room_id:$r name:$n }} }}", ENTS[ent]);
            let p = serde_json::json!({"id": id, "r": r_to.id, "n": format!("row{row} v{}", c.ops)}).to_string();
            c.w.probe(&format!("c01_move_{}", missing.replace('-', "_")));
            let res = attempt(c, who, if own { "move-own" } else { "move-foreign" }, Some(exp), missing, false, &q, Some(p))?;
            if res.is_ok() {
                c.rows[*row].room = *to;
                c.rows[*row].author = who;
                after_data_op(c, who, true)?;
            }
        }
        Step::Delete { who, row, dt } => {
            let who = *who % n;
            let Some((id, ent, room, author)) = row_info(c, *row) else { return Ok(()) };
            let Some(rr) = c.rooms.get(room).cloned().flatten() else { return Ok(()) };
            c.now += dt.max(&1);
            sync_clocks(c);
            let date = c.w.nodes[who].clock;
            let own = author == who;
            let exp = rr.can(who, ENTS[ent], date, !own);
            let q = format!("delete {{ {}{{ $id }} }}", ENTS[ent]);
            let p = serde_json::json!({"id": id}).to_string();
            let res = attempt(c, who, if own { "delete-own" } else { "delete-foreign" }, Some(exp), if own { "no-own-rows-right" } else { "no-all-rows-right" }, true, &q, Some(p))?;
            if res.is_ok() {
                c.rows[*row].alive = false;
                after_data_op(c, who, true)?;
            } else if has(&c.cfg, "C12") && !exp {
                offer_refused_change(c, who, *row, true)?;
            }
        }
        Step::RefAdd { who, row, target, dt } | Step::RefDel { who, row, target, dt } => {
            let who = *who % n;
            let add = matches!(st, Step::RefAdd { .. });
            let Some((id, ent, room, author)) = row_info(c, *row) else { return Ok(()) };
            let Some((tid, tent, _, _)) = row_info(c, *target) else { return Ok(()) };
            if ent != 0 || tent != 0 {
                return Ok(());
            }
            let Some(rr) = c.rooms.get(room).cloned().flatten() else { return Ok(()) };
            c.now += dt.max(&1);
            sync_clocks(c);
            let date = c.w.nodes[who].clock;
            let own = author == who;
            let exp = rr.can(who, "Person", date, !own);
            let p = serde_json::json!({"id": id, "t": tid}).to_string();
            // the reference must exist on the acting node for a deletion to do anything
            let exists = {
                let d = oracle::dump_room(&c.w.nodes[who].oracle_conn()?, &rr.uid)?;
                let (s, t) = (dv::uid_decode(&id).map_err(|e| e.to_string())?, dv::uid_decode(&tid).map_err(|e| e.to_string())?);
                d.edges.iter().any(|e| e.src == s.to_vec() && e.dest == t.to_vec())
            };
            let shape = match (add, own) {
                (true, true) => "reference-add-own-source",
                (true, false) => "reference-add-foreign-source",
                (false, true) => "reference-delete-own-source",
                (false, false) => "reference-delete-foreign-source",
            };
            if (add && exists) || (!add && !exists) {
                // nothing to do: no verdict is expected and nothing changes
                return Ok(());
            }
            let res = if add {
                attempt(c, who, shape, Some(exp), if own { "no-own-rows-right" } else { "no-all-rows-right" }, false, "mutate { Person{ id:$id parents:[{id:$t}] } }", Some(p))?
            } else {
                attempt(c, who, shape, Some(exp), if own { "no-own-rows-right" } else { "no-all-rows-right" }, true, "delete { Person{ $id parents[$t] } }", Some(p))?
            };
            if res.is_ok() {
                // the source row is written again, signed by the caller
                c.rows[*row].author = who;
                after_data_op(c, who, true)?;
            }
        }
        Step::UpdateThroughParent { who, row, target, dt } => {
            let who = *who % n;
            let Some((id, ent, room, _author)) = row_info(c, *row) else { return Ok(()) };
            let Some((tid, tent, troom, tauthor)) = row_info(c, *target) else { return Ok(()) };
            if ent != 0 || tent != 0 || id == tid || room != troom {
                return Ok(());
            }
            let Some(rr) = c.rooms.get(room).cloned().flatten() else { return Ok(()) };
            let exists = {
                let d = oracle::dump_room(&c.w.nodes[who].oracle_conn()?, &rr.uid)?;
                let (s, t) = (dv::uid_decode(&id).map_err(|e| e.to_string())?, dv::uid_decode(&tid).map_err(|e| e.to_string())?);
                d.edges.iter().any(|e| e.src == s.to_vec() && e.dest == t.to_vec())
            };
            if !exists {
                return Ok(());
            }
            c.now += dt.max(&1);
            sync_clocks(c);
            let date = c.w.nodes[who].clock;
            let own = tauthor == who;
            // the source row is not changed (the reference exists): only the right to change the target row is needed
            let exp = rr.can(who, "Person", date, !own);
            let p = serde_json::json!({"id": id, "t": tid, "n": format!("row{target} through-parent v{}", c.ops)}).to_string();
            let res = attempt(c, who, if own { "update-own-through-its-referrer" } else { "update-foreign-through-its-referrer" }, Some(exp), if own { "no-own-rows-right" } else { "no-all-rows-right" }, false, "mutate { Person{ id:$id parents:[{ id:$t name:$n }] } }", Some(p))?;
            if res.is_ok() {
                c.rows[*target].author = who;
                after_data_op(c, who, true)?;
            }
        }
        Step::RefAddDel { who, row, target, dt } => {
            let who = *who % n;
            let Some((id, ent, room, author)) = row_info(c, *row) else { return Ok(()) };
            let Some((tid, tent, _, _)) = row_info(c, *target) else { return Ok(()) };
            if ent != 0 || tent != 0 || id == tid {
                return Ok(());
            }
            let Some(rr) = c.rooms.get(room).cloned().flatten() else { return Ok(()) };
            let exists = {
                let d = oracle::dump_room(&c.w.nodes[who].oracle_conn()?, &rr.uid)?;
                let (s, t) = (dv::uid_decode(&id).map_err(|e| e.to_string())?, dv::uid_decode(&tid).map_err(|e| e.to_string())?);
                d.edges.iter().any(|e| e.src == s.to_vec() && e.dest == t.to_vec())
            };
            if exists {
                return Ok(());
            }
            c.now += dt.max(&1);
            sync_clocks(c);
            let date = c.w.nodes[who].clock;
            let own = author == who;
            let exp = rr.can(who, "Person", date, !own);
            let p = serde_json::json!({"id": id, "t": tid}).to_string();
            let res = attempt(c, who, if own { "reference-add-own-source" } else { "reference-add-foreign-source" }, Some(exp), if own { "no-own-rows-right" } else { "no-all-rows-right" }, false, "mutate { Person{ id:$id parents:[{id:$t}] } }", Some(p.clone()))?;
            if res.is_ok() {
                c.rows[*row].author = who;
                c.w.fault("reference_added_and_removed_between_two_synchronisations");
                c.now += 1000;
                sync_clocks(c);
                let date = c.w.nodes[who].clock;
                let exp = rr.can(who, "Person", date, false);
                let res = attempt(c, who, "reference-delete-own-source", Some(exp), "no-own-rows-right", true, "delete { Person{ $id parents[$t] } }", Some(p))?;
                let _ = res;
                after_data_op(c, who, true)?;
            }
        }
        Step::SysMutate { who, kind, dt } => {
            let who = *who % n;
            c.now += dt.max(&1);
            sync_clocks(c);
            // authorisation rows are never changed outside a room mutation
            let k = key_b64(c, who);
            if kind % 6 >= 4 {
                // a reference of the room definition removed directly: the one that makes somebody an admin (4) or a user (5)
                let Some(rr) = c.rooms.iter().flatten().next().cloned() else { return Ok(()) };
                let rn = { let conn = c.w.nodes[who].oracle_conn()?; dv::RoomNode::read(&conn, &rr.uid).map_err(|e| e.to_string())? };
                let Some(rn) = rn else { return Ok(()) };
                let (q, src, dest) = if kind % 6 == 4 {
                    let Some(e) = rn.admin_edges.first() else { return Ok(()) };
                    ("delete { sys.Room{ $id admin[$t] } }", e.src, e.dest)
                } else {
                    let Some(e) = rn.auth_nodes.iter().flat_map(|a| a.user_edges.iter()).next() else { return Ok(()) };
                    ("delete { sys.Authorisation{ $id users[$t] } }", e.src, e.dest)
                };
                let p = serde_json::json!({"id": dv::uid_encode(&src), "t": dv::uid_encode(&dest)}).to_string();
                attempt(c, who, "definition-reference-deleted-directly", Some(false), "outside-room-mutation", true, q, Some(p))?;
                return Ok(());
            }
            let (q, del): (String, bool) = match kind % 4 {
                0 => (format!("mutate {{ sys.UserAuth{{ verif_key:\"{k}\" }} }}"), false),
                1 => ("mutate { sys.EntityRight{ entity:\"Person\" mutate_self:true mutate_all:true } }".to_string(), false),
                2 => ("mutate { sys.Authorisation{ name:\"x\" } }".to_string(), false),
                _ => {
                    // delete the first group of the first room
                    match c.rooms.iter().flatten().next().and_then(|r| r.groups.first().map(|g| g.id.clone())) {
                        Some(gid) => (format!("delete {{ sys.Authorisation{{ $id }} }}|{gid}"), true),
                        None => return Ok(()),
                    }
                }
            };
            if del {
                let (q, gid) = q.split_once('|').unwrap();
                let p = serde_json::json!({"id": gid}).to_string();
                attempt(c, who, "authorisation-row-deleted-directly", Some(false), "outside-room-mutation", true, q, Some(p))?;
            } else {
                attempt(c, who, "authorisation-row-mutated-directly", Some(false), "outside-room-mutation", false, &q, None)?;
            }
        }
        Step::Restart { node } => {
            let node = *node % n;
            let before = if has(&c.cfg, "C10") { Some(grid_snapshot(c, node)?) } else { None };
            let left = c.w.nodes[node].stop();
            if left != 0 {
                return Err(format!("{left} threads left after stop"));
            }
            let r = c.w.nodes[node].start();
            c.w.fault("restart");
            c.w.log.sched(format!("restart n{node} ok={}", r.is_ok()));
            if let Err(e) = r {
                let shape = history_shape(c);
                c.w.violation("C10", &format!("restart-failed/{shape}"), format!("n{node} cannot be restarted on the data it wrote: {e}"));
                return Err("node cannot restart".into());
            }
            if has(&c.cfg, "C10") {
                // reloaded from storage must mean the same as live, whatever the history says
                let after = grid_snapshot(c, node)?;
                if let Some(before) = before {
                    if let Some(((label, b), (_, a))) = before.iter().zip(after.iter()).find(|(x, y)| x != y) {
                        let shape = label.split(' ').nth(1).unwrap_or("?").split('(').next().unwrap_or("?").to_string();
                        c.w.violation("C10", &format!("decision-differs/live-vs-restart:{shape}"), format!("n{node}: {label} was {b} before the restart and is {a} after it"));
                    } else if before.len() != after.len() {
                        c.w.violation("C10", "decision-differs/live-vs-restart:room-set", format!("n{node}: {} decisions before the restart, {} after", before.len(), after.len()));
                    }
                }
                grid_check(c, Some(node), "after-restart")?;
            }
        }
        Step::Grid => {
            if has(&c.cfg, "C10") {
                grid_check(c, None, "live-or-imported")?;
            }
        }
        Step::LateJoin => {
            if has(&c.cfg, "C10") {
                late_join(c)?;
            }
        }
    }
    Ok(())
}

/// C10: "received from a peer by an instance that had never seen it". A fresh instance (no identity of the
/// histories) pulls every room from every node, must then decide like the history, also after its own restart.
fn late_join(c: &mut Ctx) -> Result<(), String> {
    let n = c.cfg.nodes;
    let j = c.w.nodes.len();
    if j >= dv::MAX_NODES || c.rooms.iter().all(|r| r.is_none()) {
        return Ok(());
    }
    let seed = c.w.report.seed;
    let mut conf = dv::Configuration::default();
    conf.parallelism = 1;
    conf.enable_multicast = false;
    conf.enable_beacons = false;
    let mut node = SimNode::new(j, &format!("late{}", c.ops), 200, &c.w.root, MODEL, conf, c.now, seed + 77);
    node.start()?;
    c.w.nodes.push(node);
    c.w.fault("late_joiner");
    let mut imported = 0;
    let mut refused = 0;
    for s in 0..n {
        for r in 0..c.rooms.len() {
            let Some(room) = c.rooms[r].as_ref() else { continue };
            let uid = room.uid;
            let (pn, sn) = c.w.two(j, s);
            let has_def = {
                let conn = sn.oracle_conn()?;
                dv::RoomDefinitionLog::get(&uid, &conn).map(|x| x.is_some()).unwrap_or(false)
            };
            if !has_def {
                continue;
            }
            let (end, mut sess) = net::pull(pn, sn, uid, None).map_err(|e| format!("late joiner pull hung: {e:?}"))?;
            sess.abandon();
            match end {
                SessionEnd::Ok => imported += 1,
                SessionEnd::Err(e) => {
                    c.w.log.log(format!("late joiner pull n{s} room{r}: {e}"));
                    refused += 1;
                    let what = if e.contains("more recent") || e.contains("before an existing") { "entries-out-of-order" } else { "other" };
                    c.w.violation("C10", &format!("import-refused/room-not-seen-before/{what}"), format!("an instance that never saw room{r} cannot import it from n{s}, which built or imported it: {e}"));
                }
                _ => {}
            }
        }
    }
    let _ = c.w.nodes[j].drain_events();
    c.w.log.sched(format!("late-join imported={imported}"));
    if imported > 0 && refused == 0 {
        grid_check(c, Some(j), "room-not-seen-before")?;
        c.w.nodes[j].stop();
        c.w.nodes[j].start()?;
        grid_check(c, Some(j), "room-not-seen-before-then-restart")?;
    }
    let mut node = c.w.nodes.pop().unwrap();
    node.stop();
    Ok(())
}

fn group_r(g: &GroupSpec, id: String, date: i64, n: usize) -> GroupR {
    let mut gr = GroupR { id, ..Default::default() };
    for k in &g.users {
        gr.users.entry(*k % n).or_default().push(Entry { date, enabled: true });
    }
    for k in &g.user_admins {
        gr.user_admins.entry(*k % n).or_default().push(Entry { date, enabled: true });
    }
    for r in &g.rights {
        gr.rights.entry(RIGHT_ENTS[r.ent % 4].to_string()).or_default().push(RightEntry { date, own: r.own, all: r.all });
    }
    gr
}

/// abstract shape of the room histories of this run (for fingerprints)
fn history_shape(c: &Ctx) -> String {
    let mut disabled = false;
    let mut multi = false;
    for r in c.rooms.iter().flatten() {
        for v in r.admins.values() {
            multi |= v.len() > 1;
            disabled |= v.iter().any(|e| !e.enabled);
        }
        for g in &r.groups {
            for v in g.users.values().chain(g.user_admins.values()) {
                multi |= v.len() > 1;
                disabled |= v.iter().any(|e| !e.enabled);
            }
            for v in g.rights.values() {
                multi |= v.len() > 1;
            }
        }
    }
    match (disabled, multi) {
        (true, _) => "history-with-a-disabled-entry".into(),
        (false, true) => "history-with-replaced-entries".into(),
        _ => "plain-history".into(),
    }
}

fn after_def_change(c: &mut Ctx) -> Result<(), String> {
    if has(&c.cfg, "C10") {
        grid_check(c, None, "live-or-imported")?;
    }
    Ok(())
}

/// C12: after an accepted data operation every peer pulls; all must end with the same content for every room
fn after_data_op(c: &mut Ctx, who: usize, _accepted: bool) -> Result<(), String> {
    barrier(c)?;
    if !has(&c.cfg, "C12") {
        return Ok(());
    }
    for r in 0..c.rooms.len() {
        let Some(room) = c.rooms[r].clone() else { continue };
        let d0 = oracle::dump_room(&c.w.nodes[who].oracle_conn()?, &room.uid)?;
        for other in 0..c.cfg.nodes {
            if other == who {
                continue;
            }
            let d = oracle::dump_room(&c.w.nodes[other].oracle_conn()?, &room.uid)?;
            c.w.probe("c12_compare");
            if d.content_lines() != d0.content_lines() {
                let diff = oracle::first_diff(&d0.content_lines(), &d.content_lines()).unwrap_or_default();
                // known: the log summary is blind to differences in a second entity
                let sum = |c: &Ctx, node: usize| -> Result<String, String> {
                    let conn = c.w.nodes[node].oracle_conn()?;
                    Ok(format!("{:?}", dv::RoomDefinitionLog::get(&room.uid, &conn).map_err(|e| e.to_string())?.map(|d| (d.last_data_date, d.daily_hash, d.history_hash))))
                };
                let blind = sum(c, who)? == sum(c, other)?;
                let kind = diff.split(' ').nth(1).unwrap_or("?").to_string();
                let side = if diff.starts_with("only-left") { "peer-lacks" } else { "peer-has-extra" };
                let fp = if blind { "local-accept-peer-differs/summary-blind-multi-entity".to_string() } else { format!("local-accept-peer-reject/{side}:{kind}") };
                c.w.violation("C12", &fp, format!("after n{who}'s accepted write and a full synchronisation n{other} differs on room{r}: {diff}"));
            }
        }
    }
    Ok(())
}

/// C12 reverse direction: a creation refused locally for lack of right, signed by the refused author and offered to a peer
/// C12, the other direction for rows that exist: an update or a deletion refused locally for lack of right is signed with
/// the refused author's key and handed to a peer through the real ingestion entry points (filter_existing_node + add_nodes,
/// delete_nodes): the peer must refuse it too and keep the row as it was.
fn offer_refused_change(c: &mut Ctx, who: usize, row: usize, deletion: bool) -> Result<(), String> {
    let Some((id, _ent, room, _author)) = row_info(c, row) else { return Ok(()) };
    let Some(rr) = c.rooms.get(room).cloned().flatten() else { return Ok(()) };
    let Ok(uid_row) = dv::uid_decode(&id) else { return Ok(()) };
    let other = (who + 1) % c.cfg.nodes;
    let stored = {
        let d = oracle::dump_room(&c.w.nodes[other].oracle_conn()?, &rr.uid)?;
        d.nodes.into_iter().find(|n| n.id == uid_row.to_vec())
    };
    let Some(stored) = stored else { return Ok(()) };
    let date = c.w.nodes[who].clock.max(stored.mdate + 1);
    let key = c.w.nodes[who].signing_key();
    let old = dv::Node {
        id: uid_row,
        room_id: Some(rr.uid),
        cdate: stored.cdate,
        mdate: stored.mdate,
        _entity: stored.entity.clone(),
        _json: stored.json.clone(),
        _binary: stored.binary.clone(),
        verifying_key: stored.author.clone(),
        _signature: stored.signature.clone(),
        _local_id: None,
    };
    let db = c.w.nodes[other].dbh();
    let room_uid = rr.uid;
    if deletion {
        let entry = dv::NodeDeletionEntry::build(room_uid, &old, date, &key);
        let _ = c.w.nodes[other].run(async move { db.delete_nodes(vec![entry]).await.map_err(|e| e.to_string()) }).map_err(|e| format!("{e:?}"))?;
    } else {
        let mut newer = old.clone();
        newer.mdate = date;
        newer._json = newer._json.map(|j| j.replace("row", "rov"));
        newer.sign(&key).map_err(|e| e.to_string())?;
        let ident = dv::NodeIdentifier { id: newer.id, mdate: newer.mdate, signature: newer._signature.clone() };
        let _ = c.w.nodes[other]
            .run(async move {
                let mut set = std::collections::HashSet::new();
                set.insert(ident);
                let mut list = db.filter_existing_node(set).await.map_err(|e| e.to_string())?;
                for nti in list.iter_mut() {
                    let mut n = newer.clone();
                    n._local_id = nti.old_local_id;
                    nti.node = Some(n);
                }
                db.add_nodes(room_uid, list).await.map_err(|e| e.to_string())
            })
            .map_err(|e| format!("{e:?}"))?;
    }
    c.w.probe("c12_refused_change_offered");
    let d = oracle::dump_room(&c.w.nodes[other].oracle_conn()?, &rr.uid)?;
    let now_stored = d.nodes.iter().find(|n| n.id == uid_row.to_vec());
    let unchanged = now_stored.map(|n| n.signature == stored.signature).unwrap_or(false);
    let logged = d.node_del.iter().any(|t| t.id == uid_row.to_vec());
    if !unchanged || (deletion && logged) {
        let what = if deletion { "delete" } else { "update" };
        c.w.violation(
            "C12",
            &format!("local-reject-peer-accept/{what}:no-right"),
            format!("n{who} is refused the {what} locally, but the same {what} signed by n{who} is applied by n{other} (row unchanged: {unchanged}, deletion record stored: {logged})"),
        );
    }
    Ok(())
}

fn offer_refused_create(c: &mut Ctx, who: usize, room: usize, ent: usize) -> Result<(), String> {
    let Some(rr) = c.rooms.get(room).cloned().flatten() else { return Ok(()) };
    // a template row of that entity gives the storage names
    let mut template: Option<oracle::NodeRow> = None;
    for node in 0..c.cfg.nodes {
        for r in c.rooms.iter().flatten() {
            let d = oracle::dump_room(&c.w.nodes[node].oracle_conn()?, &r.uid)?;
            for nrow in d.nodes {
                if template.is_none() && nrow.json.as_deref().map(|j| j.contains("row")).unwrap_or(false) {
                    // entity short id: compare with known rows of that entity
                    let is_ent = c.rows.iter().any(|x| x.ent == ent && x.id.as_ref().and_then(|i| dv::uid_decode(i).ok()).map(|u| u.to_vec() == nrow.id).unwrap_or(false));
                    if is_ent {
                        template = Some(nrow);
                    }
                }
            }
        }
    }
    let Some(t) = template else { return Ok(()) };
    let date = c.w.nodes[who].clock;
    let mut node = dv::Node {
        id: dv::new_uid(),
        room_id: Some(rr.uid),
        cdate: date,
        mdate: date,
        _entity: t.entity.clone(),
        _json: t.json.clone(),
        _binary: None,
        verifying_key: vec![],
        _signature: vec![],
        _local_id: None,
    };
    let key = c.w.nodes[who].signing_key();
    node.sign(&key).map_err(|e| e.to_string())?;
    let id = node.id;
    let other = (who + 1) % c.cfg.nodes;
    let db = c.w.nodes[other].dbh();
    let uid = rr.uid;
    let res = c.w.nodes[other]
        .run(async move {
            let nti = dv::NodeToInsert { id, node: Some(node), ..Default::default() };
            db.add_nodes(uid, vec![nti]).await.map_err(|e| e.to_string())
        })
        .map_err(|e| format!("{e:?}"))?;
    c.w.probe("c12_refused_offered");
    let stored = {
        let d = oracle::dump_room(&c.w.nodes[other].oracle_conn()?, &rr.uid)?;
        d.nodes.iter().any(|n| n.id == id.to_vec())
    };
    let rejected = matches!(&res, Ok(v) if v.contains(&id)) || res.is_err();
    if stored || !rejected {
        c.w.violation(
            "C12",
            "local-reject-peer-accept/create:no-own-rows-right",
            format!("n{who} is refused the creation locally, but the same row signed by n{who} is stored by n{other} (rejected list: {res:?}, stored: {stored})"),
        );
    }
    Ok(())
}

// ---------------------------------------------------------------------------------------
// C10: decision grid of the in-memory rooms against R
// ---------------------------------------------------------------------------------------
/// every decision of the in-memory rooms of one node, as a list of labelled booleans
fn grid_snapshot(c: &mut Ctx, node: usize) -> Result<Vec<(String, bool)>, String> {
    let n = c.cfg.nodes;
    let keys: Vec<Vec<u8>> = (0..n).map(|k| c.w.nodes[k].vk.clone()).collect();
    let mut out = vec![];
    for r in 0..c.rooms.len() {
        let Some(rr) = c.rooms[r].clone() else { continue };
        let mut dates: Vec<i64> = vec![];
        for d in &rr.dates {
            dates.extend([d - 1, *d, d + 1]);
        }
        dates.push(c.now + DAY_MS);
        dates.sort();
        dates.dedup();
        let auth = c.w.nodes[node].dbh().auth.clone();
        let uid = rr.uid;
        let room = c.w.nodes[node]
            .run(async move {
                let (tx, rx) = tokio::sync::oneshot::channel();
                let _ = auth.send(dv::AuthorisationMessage::VerifGetRoom(uid, tx)).await;
                rx.await.ok().flatten()
            })
            .map_err(|e| format!("{e:?}"))?;
        let Some(room) = room else {
            out.push((format!("room{r} known"), false));
            continue;
        };
        out.push((format!("room{r} known"), true));
        for (k, key) in keys.iter().enumerate() {
            for d in &dates {
                out.push((format!("room{r} admin(n{k},{d})"), room.is_admin(key, *d)));
                out.push((format!("room{r} membership(n{k},{d})"), room.is_user_valid_at(key, *d)));
                for e in ["Person", "Pet", "Thing", "Unknown"] {
                    out.push((format!("room{r} own-rows-right(n{k},{e},{d})"), room.can(key, e, *d, &RightType::MutateSelf)));
                    out.push((format!("room{r} all-rows-right(n{k},{e},{d})"), room.can(key, e, *d, &RightType::MutateAll)));
                }
            }
        }
    }
    Ok(out)
}

fn grid_check(c: &mut Ctx, only: Option<usize>, path: &str) -> Result<(), String> {
    // concurrent definition changes are not always imported (known finding): the comparison with the history is labelled
    let path = if c.w.report.faults.contains_key("concurrent_definition_change") { "after-concurrent-changes" } else { path };
    let n = c.cfg.nodes;
    let keys: Vec<Vec<u8>> = (0..n).map(|k| c.w.nodes[k].vk.clone()).collect();
    for r in 0..c.rooms.len() {
        let Some(rr) = c.rooms[r].clone() else { continue };
        let mut dates: Vec<i64> = vec![];
        for d in &rr.dates {
            dates.extend([d - 1, *d, d + 1]);
        }
        dates.push(c.now + DAY_MS);
        dates.sort();
        dates.dedup();
        for node in 0..c.w.nodes.len() {
            if let Some(o) = only {
                if o != node {
                    continue;
                }
            } else if node >= n {
                continue;
            }
            let auth = c.w.nodes[node].dbh().auth.clone();
            let uid = rr.uid;
            let room = c.w.nodes[node]
                .run(async move {
                    let (tx, rx) = tokio::sync::oneshot::channel();
                    let _ = auth.send(dv::AuthorisationMessage::VerifGetRoom(uid, tx)).await;
                    rx.await.ok().flatten()
                })
                .map_err(|e| format!("{e:?}"))?;
            c.w.probe("c10_grid");
            let Some(room) = room else {
                c.w.violation("C10", &format!("room-unknown/{path}"), format!("n{node} does not hold room{r} in memory ({path})"));
                continue;
            };
            let mut mismatch: Option<String> = None;
            'outer: for (k, key) in keys.iter().enumerate() {
                for d in &dates {
                    if room.is_admin(key, *d) != rr.is_admin(k, *d) {
                        mismatch = Some(format!("is_admin(n{k}, {d}) = {} but the history says {}", room.is_admin(key, *d), rr.is_admin(k, *d)));
                        break 'outer;
                    }
                    if room.is_user_valid_at(key, *d) != rr.is_member(k, *d) {
                        mismatch = Some(format!("member(n{k}, {d}) = {} but the history says {}", room.is_user_valid_at(key, *d), rr.is_member(k, *d)));
                        break 'outer;
                    }
                    for e in ["Person", "Pet", "Thing", "Unknown"] {
                        for all in [false, true] {
                            let got = room.can(key, e, *d, if all { &RightType::MutateAll } else { &RightType::MutateSelf });
                            let want = rr.can(k, e, *d, all);
                            if got != want {
                                mismatch = Some(format!("can(n{k}, {e}, {d}, {}) = {got} but the history says {want}", if all { "all-rows" } else { "own-rows" }));
                                break 'outer;
                            }
                        }
                    }
                }
            }
            if let Some(m) = mismatch {
                let shape = if m.contains("own-rows") { "own-rows-right" } else if m.contains("all-rows") { "all-rows-right" } else if m.contains("is_admin") { "admin" } else { "membership" };
                c.w.violation("C10", &format!("decision-differs/{path}:{shape}"), format!("n{node} room{r} ({path}): {m}"));
            }
        }
    }
    Ok(())
}
