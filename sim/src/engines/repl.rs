//! Engine `repl`: 2-4 member nodes, local operations, real pulls over the simulated transport with
//! cuts, interleaved sessions, crash/restart and clocks. Oracles: C03 (convergence), C11 (tombstones),
//! C09 (daily log), C17 (search), C18 (ingestion events).
use crate::kit::{day_of, Rng, DAY_MS, T0};
use crate::net::{self, Session, SessionEnd};
use crate::node::SimNode;
use crate::oracle::{self, RoomDump};
use crate::world::{Trace, World};
use discret::verif as dv;
use discret::verif::{Event, Uid};
use serde::{Deserialize, Serialize};
use std::collections::{BTreeMap, BTreeSet, HashMap};

pub const MODEL: &str = "{
    Person{ name:String, nick:String nullable, parents:[Person], pet:Pet nullable }
    Pet{ name:String }
    Box(no_full_text_index){ name:String, items:[Person] }
}";

#[derive(Clone, Debug, Serialize, Deserialize)]
pub struct Cfg {
    pub nodes: usize,
    pub rooms: usize,
    /// clock skew of each node at start (ms)
    pub skew: Vec<i64>,
    /// bytes per answer batch (GraphDatabaseService.buffer_size); 0 = default
    pub answer_bytes: usize,
    pub write_buffer_length: usize,
    /// oracles armed in this run
    pub oracles: Vec<String>,
    /// maximum heal rounds before declaring non-convergence (0 = 2N+3)
    #[serde(default)]
    pub heal_bound: usize,
    /// 1: every row is a Person; 2: Person and Pet rows share the rooms
    #[serde(default = "two")]
    pub entities: usize,
}
fn two() -> usize {
    2
}

#[derive(Clone, Debug, Serialize, Deserialize)]
#[serde(tag = "t")]
pub enum Step {
    Create { node: usize, row: usize, room: usize, ent: u8, text: String, dt: i64 },
    Update { node: usize, row: usize, text: String, dt: i64 },
    Nick { node: usize, row: usize, text: Option<String>, dt: i64 },
    /// a Person created (row not yet known) or renamed (row known) NESTED inside a mutation of a Box, an entity
    /// declared without full-text index
    InBox { node: usize, row: usize, room: usize, text: String, dt: i64 },
    RefAdd { node: usize, row: usize, target: usize, dt: i64 },
    RefDel { node: usize, row: usize, target: usize, dt: i64 },
    PetSet { node: usize, row: usize, target: usize, dt: i64 },
    Delete { node: usize, row: usize, dt: i64 },
    Pull { puller: usize, server: usize, room: usize, cut: Option<usize> },
    Open { sid: usize, puller: usize, server: usize, room: usize },
    Deliver { sid: usize, n: usize },
    Cut { sid: usize },
    Crash { node: usize },
    ClockJump { node: usize, by: i64 },
    Check,
}

#[derive(Clone, Debug)]
struct Row {
    id: Option<String>,
    ent: u8,
    room: usize,
}

struct Ctx {
    w: World,
    cfg: Cfg,
    rooms: Vec<(Uid, String)>,
    rows: Vec<Row>,
    sessions: HashMap<usize, Session>,
    /// row id (hex) -> highest mdate ever seen stored anywhere
    max_mdate: BTreeMap<Vec<u8>, i64>,
    /// tokens ever used in texts
    tokens: BTreeSet<String>,
    /// (node, room, entity, day) touched by ingestion since last event drain, for C18
    any_op: bool,
    /// acknowledged versions of each row name: row idx -> set of names acknowledged
    acked: BTreeMap<usize, BTreeSet<String>>,
    /// (node, row id hex) -> signatures of the versions that node wrote itself (not received by a pull)
    local_sigs: BTreeSet<(usize, String)>,
    /// id (base64) of the row the current step mutated
    last_written: Option<String>,
    /// per node: row id (base64) -> signature stored after the previous step
    sig_maps: Vec<BTreeMap<String, String>>,
    /// (node, row id) whose stored version was ever replaced by the synchronisation path
    synced_over: BTreeSet<(usize, String)>,
    /// (node, row id) mutated locally by the current step
    step_local: Option<(usize, String)>,
    /// row id (base64) -> every text (name or nick) ever acknowledged for it
    row_texts: BTreeMap<String, Vec<String>>,
    /// simulated real time; a node's wall clock is now + offset[node] (skew and jumps)
    now: i64,
    offset: Vec<i64>,
}

fn sync_clocks(c: &mut Ctx) {
    for i in 0..c.w.nodes.len() {
        c.w.nodes[i].clock = c.now + c.offset[i];
    }
}

fn step_dt(st: &Step) -> i64 {
    match st {
        Step::Create { dt, .. }
        | Step::Update { dt, .. }
        | Step::Nick { dt, .. }
        | Step::InBox { dt, .. }
        | Step::RefAdd { dt, .. }
        | Step::RefDel { dt, .. }
        | Step::PetSet { dt, .. }
        | Step::Delete { dt, .. } => *dt,
        _ => 0,
    }
}

fn ent_name(e: u8) -> &'static str {
    if e == 0 {
        "Person"
    } else {
        "Pet"
    }
}

fn has(cfg: &Cfg, o: &str) -> bool {
    cfg.oracles.iter().any(|x| x == o)
}

pub const VOCAB: [&str; 10] = [
    "alpha", "bravo7", "char1ie", "delta", "echo99", "foxtrot", "golf", "hotel5", "india", "juliet",
];

fn gen_text(r: &mut Rng) -> String {
    let n = 1 + r.usize(3);
    let mut v = vec![];
    for _ in 0..n {
        v.push(VOCAB[r.usize(VOCAB.len())].to_string());
    }
    // unique marker so that every written value is attributable
    format!("{} v{}", v.join(" "), r.below(100000))
}

fn gen_dt(r: &mut Rng, day_bias: bool) -> i64 {
    let w: [u32; 7] = if day_bias {
        [10, 15, 15, 10, 10, 25, 15]
    } else {
        [20, 30, 20, 10, 5, 10, 5]
    };
    match r.weighted(&w) {
        0 => 0,
        1 => 1,
        2 => 1000 + r.range(0, 5000),
        3 => 3_600_000,
        4 => 6 * 3_600_000,
        5 => DAY_MS,
        _ => DAY_MS * r.range(2, 4),
    }
}

// ---------------------------------------------------------------------------------------
// generation
// ---------------------------------------------------------------------------------------
pub fn generate(seed: u64, property: &str, thorough: bool) -> Trace {
    let mut rc = Rng::stream(seed, "config");
    let mut rw = Rng::stream(seed, "workload");
    let mut rf = Rng::stream(seed, "faults");
    let nodes = 2 + rc.usize(3); // 2..4
    let rooms = 1 + rc.usize(2);
    let mut skew = vec![];
    for _ in 0..nodes {
        skew.push(match rc.usize(6) {
            0 | 1 | 2 => 0,
            3 => rc.range(-5, 5),
            4 => rc.range(-3, 3) * 3_600_000,
            _ => rc.range(-1, 1) * DAY_MS,
        });
    }
    let entities = 1 + rc.usize(2);
    let answer_bytes = *rc.pick(&[0usize, 0, 300, 700, 2000]);
    let write_buffer_length = *rc.pick(&[1usize, 2, 8, 1024]);
    let oracles: Vec<String> = match property {
        "C03" => vec!["C03".into()],
        "C11" => vec!["C11".into()],
        "C09" => vec!["C09".into()],
        "C17" => vec!["C17".into()],
        "C18" => vec!["C18".into()],
        _ => vec!["C03".into(), "C11".into(), "C09".into(), "C17".into(), "C18".into()],
    };
    let faults_on = rc.chance(3, 4);
    let max_steps = if thorough { 20 + rc.usize(40) } else { 10 + rc.usize(25) };
    let day_bias = property == "C09" || rc.chance(1, 3);
    // weights: create, update, nick, refadd, refdel, petset, delete, pull, stepped-session, crash, jump, check
    let mut w: [u32; 12] = [22, 18, 6, 8, 5, 4, 8, 20, 6, 2, 1, 2];
    match property {
        "C11" => {
            w[6] = 22;
            w[4] = 10;
            w[7] = 30;
        }
        "C09" => {
            w[11] = 8;
            w[6] = 12;
            w[4] = 8;
        }
        "C17" => {
            w[1] = 26;
            w[2] = 10;
            w[6] = 14;
            w[11] = 8;
        }
        _ => {}
    }
    if !faults_on {
        w[9] = 0;
        w[10] = 0;
    }
    let mut steps: Vec<Step> = vec![];
    let mut nrows = 0usize;
    let mut deleted: BTreeSet<usize> = BTreeSet::new();
    let mut row_ent: Vec<u8> = vec![];
    let mut open_sids: Vec<usize> = vec![];
    let mut next_sid = 0usize;
    while steps.len() < max_steps {
        let k = rw.weighted(&w);
        let node = rw.usize(nodes);
        let dt = gen_dt(&mut rw, day_bias);
        let live: Vec<usize> = (0..nrows).filter(|r| !deleted.contains(r)).collect();
        match k {
            0 if property == "C17" && rw.chance(1, 6) => {
                steps.push(Step::InBox { node, row: nrows, room: rw.usize(rooms), text: gen_text(&mut rw), dt });
                row_ent.push(0);
                nrows += 1;
            }
            0 => {
                let ent = if entities > 1 && rw.chance(1, 4) { 1 } else { 0 };
                steps.push(Step::Create {
                    node,
                    row: nrows,
                    room: rw.usize(rooms),
                    ent,
                    text: gen_text(&mut rw),
                    dt,
                });
                row_ent.push(ent);
                nrows += 1;
            }
            1 if !live.is_empty() && property == "C17" && rw.chance(1, 5) => {
                // rename through a mutation of an entity that is not indexed
                let p: Vec<usize> = live.iter().cloned().filter(|r| row_ent[*r] == 0).collect();
                if !p.is_empty() {
                    steps.push(Step::InBox { node, row: *rw.pick(&p), room: 0, text: gen_text(&mut rw), dt });
                }
            }
            1 if !live.is_empty() => {
                let row = *rw.pick(&live);
                steps.push(Step::Update { node, row, text: gen_text(&mut rw), dt });
                // concurrent update of the same row on another node, often in the same millisecond
                if rw.chance(1, 3) && nodes > 1 {
                    let other = (node + 1 + rw.usize(nodes - 1)) % nodes;
                    let dt2 = if rw.chance(2, 3) { 0 } else { gen_dt(&mut rw, day_bias) };
                    steps.push(Step::Update { node: other, row, text: gen_text(&mut rw), dt: dt2 });
                }
            }
            2 if !live.is_empty() => {
                let p: Vec<usize> = live.iter().cloned().filter(|r| row_ent[*r] == 0).collect();
                if !p.is_empty() {
                    let row = *rw.pick(&p);
                    let text = if rw.chance(1, 3) { None } else { Some(gen_text(&mut rw)) };
                    steps.push(Step::Nick { node, row, text, dt });
                }
            }
            3 | 4 | 5 if live.len() >= 2 => {
                let p: Vec<usize> = live.iter().cloned().filter(|r| row_ent[*r] == 0).collect();
                if !p.is_empty() {
                    let row = *rw.pick(&p);
                    if k == 5 {
                        let pets: Vec<usize> =
                            live.iter().cloned().filter(|r| row_ent[*r] == 1).collect();
                        if !pets.is_empty() {
                            steps.push(Step::PetSet { node, row, target: *rw.pick(&pets), dt });
                        }
                    } else {
                        let target = *rw.pick(&p);
                        if k == 3 {
                            steps.push(Step::RefAdd { node, row, target, dt });
                            // the source row updated on another node, often in the same millisecond as the reference is added
                            if rw.chance(1, 3) && nodes > 1 {
                                let other = (node + 1 + rw.usize(nodes - 1)) % nodes;
                                let dt2 = if rw.chance(2, 3) { 0 } else { gen_dt(&mut rw, day_bias) };
                                steps.push(Step::Update { node: other, row, text: gen_text(&mut rw), dt: dt2 });
                            }
                        } else {
                            steps.push(Step::RefDel { node, row, target, dt });
                        }
                    }
                }
            }
            6 if !live.is_empty() => {
                let row = *rw.pick(&live);
                steps.push(Step::Delete { node, row, dt });
                deleted.insert(row);
            }
            7 if nodes > 1 => {
                let server = (node + 1 + rw.usize(nodes - 1)) % nodes;
                let cut = if faults_on && rf.chance(1, 4) {
                    Some(rf.usize(30))
                } else {
                    None
                };
                steps.push(Step::Pull { puller: node, server, room: rw.usize(rooms), cut });
            }
            8 if nodes > 1 => {
                // message-stepped session(s), possibly two interleaved, with local writes in between
                let server = (node + 1 + rw.usize(nodes - 1)) % nodes;
                let sid = next_sid;
                next_sid += 1;
                steps.push(Step::Open { sid, puller: node, server, room: rw.usize(rooms) });
                open_sids.push(sid);
                if rw.chance(1, 2) {
                    // opposite direction or third party at the same time
                    let sid2 = next_sid;
                    next_sid += 1;
                    let (p2, s2) = if rw.chance(1, 2) || nodes < 3 {
                        (server, node)
                    } else {
                        ((0..nodes).find(|x| *x != node && *x != server).unwrap(), server)
                    };
                    steps.push(Step::Open { sid: sid2, puller: p2, server: s2, room: rw.usize(rooms) });
                    open_sids.push(sid2);
                }
                let bursts = 1 + rw.usize(6);
                for _ in 0..bursts {
                    if open_sids.is_empty() {
                        break;
                    }
                    let s = *rw.pick(&open_sids);
                    steps.push(Step::Deliver { sid: s, n: 1 + rw.usize(6) });
                    if rw.chance(1, 4) && !live.is_empty() {
                        let row = *rw.pick(&live);
                        steps.push(Step::Update {
                            node: rw.usize(nodes),
                            row,
                            text: gen_text(&mut rw),
                            dt: gen_dt(&mut rw, false),
                        });
                    }
                    if faults_on && rf.chance(1, 8) {
                        steps.push(Step::Cut { sid: s });
                        open_sids.retain(|x| *x != s);
                    }
                }
                // remaining sessions are completed by a large Deliver
                for s in open_sids.drain(..) {
                    steps.push(Step::Deliver { sid: s, n: 100000 });
                }
            }
            9 => steps.push(Step::Crash { node }),
            10 => {
                let by = *rf.pick(&[-DAY_MS, -3_600_000, -1000, 3_600_000, DAY_MS]);
                steps.push(Step::ClockJump { node, by });
            }
            11 => steps.push(Step::Check),
            _ => {}
        }
    }
    let cfg = Cfg {
        nodes,
        rooms,
        skew,
        answer_bytes,
        write_buffer_length,
        oracles,
        heal_bound: 0,
        entities,
    };
    Trace {
        engine: "repl".into(),
        property: property.into(),
        seed,
        cfg: serde_json::to_value(&cfg).unwrap(),
        steps: steps.iter().map(|s| serde_json::to_value(s).unwrap()).collect(),
        expect_fingerprint: None,
        note: None,
    }
}

/// directed skeletons (DESIGN Appendix F); `variant` perturbs identities and days
pub fn directed(property: &str) -> Vec<Trace> {
    let mut out = vec![];
    let mk = |name: &str, nodes: usize, steps: Vec<Step>, oracles: Vec<&str>| Trace {
        engine: "repl".into(),
        property: property.into(),
        seed: 0,
        cfg: serde_json::to_value(&Cfg {
            nodes,
            rooms: 1,
            skew: vec![0; nodes],
            answer_bytes: 0,
            write_buffer_length: 1024,
            oracles: oracles.iter().map(|s| s.to_string()).collect(),
            heal_bound: 0,
            entities: 2,
        })
        .unwrap(),
        steps: steps.iter().map(|s| serde_json::to_value(s).unwrap()).collect(),
        expect_fingerprint: None,
        note: Some(name.to_string()),
    };
    let pull = |p: usize, s: usize| Step::Pull { puller: p, server: s, room: 0, cut: None };
    match property {
        "C11" => {
            // a reference is deleted on A; B's pull from A is cut somewhere between the deletion records and the rows;
            // B then pulls from C, which has not seen the deletion: the reference must not come back on B
            for cut in [6usize, 8, 9, 10, 11, 12, 13, 14, 16] {
                out.push(mk(
                    &format!("C11 reference deleted on A; B<-A cut after {cut} messages; B<-C (stale)"),
                    3,
                    vec![
                        Step::Create { node: 0, row: 0, room: 0, ent: 0, text: "alpha v1".into(), dt: 1 },
                        Step::Create { node: 0, row: 1, room: 0, ent: 0, text: "bravo7 v1".into(), dt: 1 },
                        Step::RefAdd { node: 0, row: 0, target: 1, dt: 1000 },
                        pull(2, 0),
                        Step::RefDel { node: 0, row: 0, target: 1, dt: 1000 },
                        Step::Pull { puller: 1, server: 0, room: 0, cut: Some(cut) },
                        pull(1, 2),
                        Step::Check,
                    ],
                    vec!["C11"],
                ));
            }
            // delete on A; B<-A; B<-C; A<-B (C still holds the row)
            for del_dt in [1000i64, DAY_MS] {
                out.push(mk(
                    "C11 delete on A; B<-A; B<-C; A<-B",
                    3,
                    vec![
                        Step::Create { node: 0, row: 0, room: 0, ent: 0, text: "alpha v1".into(), dt: 1 },
                        pull(1, 0),
                        pull(2, 0),
                        Step::Delete { node: 0, row: 0, dt: del_dt },
                        pull(1, 0),
                        pull(1, 2),
                        pull(0, 1),
                    ],
                    vec!["C11"],
                ));
                out.push(mk(
                    "C11 delete on A; A<-C (C has not seen the deletion)",
                    3,
                    vec![
                        Step::Create { node: 0, row: 0, room: 0, ent: 0, text: "alpha v1".into(), dt: 1 },
                        pull(2, 0),
                        Step::Delete { node: 0, row: 0, dt: del_dt },
                        pull(0, 2),
                    ],
                    vec!["C11"],
                ));
            }
            out.push(mk(
                "C11 reference deleted on A; A<-B (B still holds the reference)",
                2,
                vec![
                    Step::Create { node: 0, row: 0, room: 0, ent: 0, text: "alpha v1".into(), dt: 1 },
                    Step::Create { node: 0, row: 1, room: 0, ent: 0, text: "bravo7 v2".into(), dt: 1 },
                    Step::RefAdd { node: 0, row: 0, target: 1, dt: 1 },
                    pull(1, 0),
                    Step::RefDel { node: 0, row: 0, target: 1, dt: 1000 },
                    pull(0, 1),
                ],
                vec!["C11"],
            ));
        }
        "C03" => {
            for (adder, other) in [(0usize, 1usize), (1, 0)] {
                out.push(mk(
                    "C03 a reference added on one peer and the source row renamed on the other in the same millisecond",
                    2,
                    vec![
                        Step::Create { node: 0, row: 0, room: 0, ent: 0, text: "alpha v1".into(), dt: 1 },
                        Step::Create { node: 0, row: 1, room: 0, ent: 0, text: "bravo7 v1".into(), dt: 1 },
                        pull(1, 0),
                        Step::RefAdd { node: adder, row: 0, target: 1, dt: 1000 },
                        Step::Update { node: other, row: 0, text: "delta v2".into(), dt: 0 },
                        pull(other, adder),
                        pull(adder, other),
                    ],
                    vec!["C03"],
                ));
            }
            out.push(mk(
                "C03 same row updated on A and B in the same millisecond; C pulls both",
                3,
                vec![
                    Step::Create { node: 0, row: 0, room: 0, ent: 0, text: "alpha v1".into(), dt: 1 },
                    pull(1, 0),
                    pull(2, 0),
                    Step::Update { node: 0, row: 0, text: "bravo7 v2".into(), dt: 1000 },
                    Step::Update { node: 1, row: 0, text: "delta v3".into(), dt: 1000 },
                    pull(2, 0),
                    pull(2, 1),
                ],
                vec!["C03"],
            ));
            out.push(mk(
                "C03 pull cut early then resumed from the other peer",
                3,
                vec![
                    Step::Create { node: 0, row: 0, room: 0, ent: 0, text: "alpha v1".into(), dt: 1 },
                    Step::Create { node: 0, row: 1, room: 0, ent: 0, text: "echo99 v2".into(), dt: DAY_MS },
                    pull(1, 0),
                    Step::Delete { node: 0, row: 0, dt: 1000 },
                    Step::Update { node: 0, row: 1, text: "golf v3".into(), dt: 1 },
                    Step::Pull { puller: 2, server: 0, room: 0, cut: Some(12) },
                    pull(2, 1),
                ],
                vec!["C03"],
            ));
            out.push(mk(
                "C03 update across midnight on two peers",
                2,
                vec![
                    Step::Create { node: 0, row: 0, room: 0, ent: 0, text: "alpha v1".into(), dt: 1 },
                    pull(1, 0),
                    Step::Update { node: 0, row: 0, text: "bravo7 v2".into(), dt: DAY_MS },
                    Step::Update { node: 1, row: 0, text: "delta v3".into(), dt: DAY_MS + 5 },
                ],
                vec!["C03"],
            ));
        }
        "C09" => {
            out.push(mk(
                "C09 row updated on a later day locally, then pulled",
                2,
                vec![
                    Step::Create { node: 0, row: 0, room: 0, ent: 0, text: "alpha v1".into(), dt: 1 },
                    pull(1, 0),
                    Step::Update { node: 0, row: 0, text: "bravo7 v2".into(), dt: DAY_MS },
                    Step::Check,
                    pull(1, 0),
                    Step::Check,
                ],
                vec!["C09"],
            ));
            out.push(mk(
                "C09 reference deleted a day after the source row's last change",
                2,
                vec![
                    Step::Create { node: 0, row: 0, room: 0, ent: 0, text: "alpha v1".into(), dt: 1 },
                    Step::Create { node: 0, row: 1, room: 0, ent: 0, text: "bravo7 v2".into(), dt: 1 },
                    Step::RefAdd { node: 0, row: 0, target: 1, dt: 1 },
                    Step::Check,
                    Step::RefDel { node: 0, row: 0, target: 1, dt: DAY_MS },
                    Step::Check,
                    pull(1, 0),
                    Step::Check,
                ],
                vec!["C09"],
            ));
            out.push(mk(
                "C09 row deleted a day after its creation",
                2,
                vec![
                    Step::Create { node: 0, row: 0, room: 0, ent: 0, text: "alpha v1".into(), dt: 1 },
                    Step::Create { node: 0, row: 1, room: 0, ent: 1, text: "bravo7 v2".into(), dt: 1 },
                    pull(1, 0),
                    Step::Delete { node: 0, row: 0, dt: DAY_MS },
                    Step::Check,
                    pull(1, 0),
                    Step::Check,
                ],
                vec!["C09"],
            ));
        }
        "C11x" => {}
        "C17" => {
            out.push(mk(
                "C17 row received through a pull, then searched on the importer",
                2,
                vec![
                    Step::Create { node: 0, row: 0, room: 0, ent: 0, text: "alpha v1".into(), dt: 1 },
                    pull(1, 0),
                    Step::Check,
                ],
                vec!["C17"],
            ));
            out.push(mk(
                "C17 row deleted, new row created, old token searched",
                1,
                vec![
                    Step::Create { node: 0, row: 0, room: 0, ent: 0, text: "alpha v1".into(), dt: 1 },
                    Step::Delete { node: 0, row: 0, dt: 1 },
                    Step::Create { node: 0, row: 1, room: 0, ent: 0, text: "bravo7 v2".into(), dt: 1 },
                    Step::Check,
                ],
                vec!["C17"],
            ));
            out.push(mk(
                "C17 local updates of every kind: text replaced, second text set, second text set to null, then searched",
                1,
                vec![
                    Step::Create { node: 0, row: 0, room: 0, ent: 0, text: "alpha v1".into(), dt: 1 },
                    Step::Nick { node: 0, row: 0, text: Some("zulu9 nick".into()), dt: 1000 },
                    Step::Check,
                    Step::Nick { node: 0, row: 0, text: None, dt: 1000 },
                    Step::Check,
                    Step::Update { node: 0, row: 0, text: "bravo7 v2".into(), dt: 1000 },
                    Step::Check,
                    Step::Nick { node: 0, row: 0, text: Some("kilo3 nick".into()), dt: 1000 },
                    Step::Update { node: 0, row: 0, text: "bravo7 v2".into(), dt: 1000 },
                    Step::Nick { node: 0, row: 0, text: None, dt: DAY_MS },
                    Step::Check,
                ],
                vec!["C17"],
            ));
            out.push(mk(
                "C17 indexed rows created and renamed nested inside a mutation of an entity that is not indexed",
                1,
                vec![
                    Step::InBox { node: 0, row: 0, room: 0, text: "alpha v1".into(), dt: 1 },
                    Step::Check,
                    Step::InBox { node: 0, row: 0, room: 0, text: "bravo7 v2".into(), dt: 1000 },
                    Step::Check,
                    Step::Create { node: 0, row: 1, room: 0, ent: 0, text: "delta v3".into(), dt: 1000 },
                    Step::InBox { node: 0, row: 1, room: 0, text: "kilo3 v4".into(), dt: 1000 },
                    Step::Check,
                ],
                vec!["C17"],
            ));
            out.push(mk(
                "C17 indexed row replaced by a newer version through a pull",
                2,
                vec![
                    Step::Create { node: 0, row: 0, room: 0, ent: 0, text: "alpha v1".into(), dt: 1 },
                    pull(1, 0),
                    Step::Update { node: 1, row: 0, text: "delta v2".into(), dt: 1000 },
                    pull(0, 1),
                    Step::Check,
                ],
                vec!["C17"],
            ));
        }
        "C18" => {
            out.push(mk(
                "C18 ingested batch announced on the importer",
                2,
                vec![
                    Step::Create { node: 0, row: 0, room: 0, ent: 0, text: "alpha v1".into(), dt: 1 },
                    Step::Create { node: 0, row: 1, room: 0, ent: 1, text: "bravo7 v2".into(), dt: DAY_MS },
                    pull(1, 0),
                ],
                vec!["C18"],
            ));
        }
        _ => {}
    }
    out
}

// ---------------------------------------------------------------------------------------
// execution
// ---------------------------------------------------------------------------------------
pub fn execute(trace: &Trace, keep_log: bool) -> (crate::kit::RunReport, Vec<String>) {
    let cfg: Cfg = serde_json::from_value(trace.cfg.clone()).expect("bad repl cfg");
    let steps: Vec<Step> = trace
        .steps
        .iter()
        .filter_map(|s| serde_json::from_value(s.clone()).ok())
        .collect();
    let w = World::new("repl", trace.seed, keep_log);
    let mut c = Ctx {
        w,
        cfg: cfg.clone(),
        rooms: vec![],
        rows: vec![],
        sessions: HashMap::new(),
        max_mdate: BTreeMap::new(),
        tokens: BTreeSet::new(),
        any_op: false,
        acked: BTreeMap::new(),
        local_sigs: BTreeSet::new(),
        last_written: None,
        sig_maps: vec![],
        synced_over: BTreeSet::new(),
        step_local: None,
        row_texts: BTreeMap::new(),
        now: T0,
        offset: cfg.skew.clone(),
    };
    if let Err(e) = setup(&mut c) {
        c.w.harness_error(format!("setup: {e}"));
        return c.w.finish();
    }
    for (i, st) in steps.iter().enumerate() {
        c.w.step_no = i + 1;
        if let Err(e) = exec_step(&mut c, st) {
            c.w.harness_error(format!("step {i} {st:?}: {e}"));
            break;
        }
        if !c.w.report.harness_errors.is_empty() {
            break;
        }
        if has(&c.cfg, "C11") {
            check_c11_all(&mut c);
        }
        if has(&c.cfg, "C17") {
            if let Err(e) = update_sig_maps(&mut c) {
                c.w.harness_error(format!("sig maps: {e}"));
            }
        }
    }
    if c.w.report.harness_errors.is_empty() {
        c.w.step_no = steps.len() + 1;
        if let Err(e) = finale(&mut c) {
            c.w.harness_error(format!("finale: {e}"));
        }
    }
    for (_, mut s) in c.sessions.drain() {
        s.abandon();
    }
    c.w.report.nontrivial = c.any_op;
    c.w.finish()
}

fn setup(c: &mut Ctx) -> Result<(), String> {
    let seed = c.w.report.seed;
    for i in 0..c.cfg.nodes {
        let mut conf = dv::Configuration::default();
        conf.parallelism = 1;
        conf.write_buffer_length = c.cfg.write_buffer_length;
        conf.enable_multicast = false;
        conf.enable_beacons = false;
        let name = format!("n{i}");
        let mut n = SimNode::new(
            i,
            &name,
            (10 + i * 20) as u8,
            &c.w.root,
            MODEL,
            conf,
            T0 + c.cfg.skew.get(i).cloned().unwrap_or(0),
            seed.wrapping_add(i as u64),
        );
        n.start().map_err(|e| format!("start {name}: {e}"))?;
        apply_answer_bytes(&mut n, c.cfg.answer_bytes);
        c.w.nodes.push(n);
    }
    // rooms: created by node 0, every node a user with full rights on every entity
    let keys: Vec<String> = c.w.nodes.iter().map(|n| dv::base64_encode(&n.vk)).collect();
    for _r in 0..c.cfg.rooms {
        let users: Vec<String> = keys.iter().map(|k| format!("{{verif_key:\"{k}\"}}")).collect();
        let q = format!(
            r#"mutate {{ sys.Room{{ admin:[{{verif_key:"{}"}}] authorisations:[{{ name:"all" rights:[{{entity:"Person" mutate_self:true mutate_all:true}},{{entity:"Pet" mutate_self:true mutate_all:true}},{{entity:"Box" mutate_self:true mutate_all:true}}] users:[{}] }}] }} }}"#,
            keys[0],
            users.join(",")
        );
        c.now += 1;
        sync_clocks(c);
        let r = c.w.nodes[0].mutate(&q, None)?;
        let v: serde_json::Value = serde_json::from_str(&r).map_err(|e| e.to_string())?;
        let rid = v["sys.Room"]["id"].as_str().ok_or("no room id")?.to_string();
        let uid = dv::uid_decode(&rid).map_err(|e| e.to_string())?;
        c.rooms.push((uid, rid));
    }
    // every other node learns the rooms by a fault-free pull
    for i in 1..c.cfg.nodes {
        for r in 0..c.cfg.rooms {
            let room = c.rooms[r].0;
            let (p, s) = c.w.two(i, 0);
            let (end, mut sess) = net::pull(p, s, room, None).map_err(|e| format!("{e:?}"))?;
            sess.abandon();
            if end != SessionEnd::Ok {
                return Err(format!("setup pull failed: {end:?}"));
            }
        }
    }
    for n in &mut c.w.nodes {
        let _ = n.drain_events();
    }
    c.w.log.log(format!("setup done nodes={} rooms={}", c.cfg.nodes, c.cfg.rooms));
    Ok(())
}

fn apply_answer_bytes(n: &mut SimNode, answer_bytes: usize) {
    if answer_bytes > 0 {
        if let Some(db) = n.db.as_mut() {
            db.buffer_size = answer_bytes;
        }
        if let Some(sv) = n.services.as_mut() {
            sv.database.buffer_size = answer_bytes;
        }
    }
}

fn up(c: &Ctx, node: usize) -> bool {
    node < c.w.nodes.len() && c.w.nodes[node].is_up()
}

fn exec_step(c: &mut Ctx, st: &Step) -> Result<(), String> {
    c.now += step_dt(st).max(0);
    sync_clocks(c);
    match st {
        Step::Create { node, row, room, ent, text, dt } => {
            let node = *node % c.cfg.nodes;
            let room = *room % c.cfg.rooms;
            while c.rows.len() <= *row {
                c.rows.push(Row { id: None, ent: *ent, room });
            }
            if !up(c, node) || c.rows[*row].id.is_some() {
                return Ok(());
            }
            c.rows[*row].ent = *ent;
            c.rows[*row].room = room;
            let rid = c.rooms[room].1.clone();
            let n = &mut c.w.nodes[node];
            let q = format!("mutate {{ {}{{ room_id:$r name:$n }} }}", ent_name(*ent));
            let p = serde_json::json!({"r": rid, "n": text}).to_string();
            let res = n.mutate(&q, Some(&p));
            c.w.log.sched(format!("create n{node} e{ent} ok={}", res.is_ok()));
            match res {
                Ok(r) => {
                    let v: serde_json::Value = serde_json::from_str(&r).map_err(|e| e.to_string())?;
                    let id = v[ent_name(*ent)]["id"].as_str().ok_or("no id")?.to_string();
                    c.w.log.log(format!("row#{row} id={id}"));
                    c.rows[*row].id = Some(id.clone());
                    c.last_written = Some(id);
                    c.any_op = true;
                    note_tokens(c, text);
                    c.acked.entry(*row).or_default().insert(text.clone());
                    after_local_write(c, node, room, *ent)?;
                }
                Err(e) => {
                    c.w.log.log(format!("create failed: {e}"));
                    if e.starts_with("HUNG") {
                        return Err(e);
                    }
                }
            }
        }
        Step::Update { node, row, text, dt } => {
            let node = *node % c.cfg.nodes;
            let Some((id, ent, room)) = row_of(c, *row) else { return Ok(()) };
            if !up(c, node) {
                return Ok(());
            }
            let n = &mut c.w.nodes[node];
            let q = format!("mutate {{ {}{{ id:$id name:$n }} }}", ent_name(ent));
            let p = serde_json::json!({"id": id, "n": text}).to_string();
            let res = n.mutate(&q, Some(&p));
            c.w.log.sched(format!("update n{node} ok={}", res.is_ok()));
            match res {
                Ok(_) => {
                    c.any_op = true;
                    note_tokens(c, text);
                    c.acked.entry(*row).or_default().insert(text.clone());
                    c.last_written = Some(id.clone());
                    after_local_write(c, node, room, ent)?;
                }
                Err(e) => {
                    c.w.log.log(format!("update failed: {e}"));
                    if e.starts_with("HUNG") {
                        return Err(e);
                    }
                }
            }
        }
        Step::InBox { node, row, room, text, dt } => {
            let node = *node % c.cfg.nodes;
            let _ = dt;
            if !up(c, node) {
                return Ok(());
            }
            while c.rows.len() <= *row {
                c.rows.push(Row { id: None, ent: 0, room: *room % c.cfg.rooms });
            }
            let known = row_of(c, *row);
            let (q, p, room_ix) = match &known {
                Some((id, _, r)) => (
                    "mutate { Box{ room_id:$r name:\"box\" items:[{ id:$id name:$n }] } }".to_string(),
                    serde_json::json!({"r": c.rooms[*r].1, "id": id, "n": text}).to_string(),
                    *r,
                ),
                None => {
                    let r = *room % c.cfg.rooms;
                    ("mutate { Box{ room_id:$r name:\"box\" items:[{ name:$n }] } }".to_string(), serde_json::json!({"r": c.rooms[r].1, "n": text}).to_string(), r)
                }
            };
            let res = c.w.nodes[node].mutate(&q, Some(&p));
            c.w.log.sched(format!("in-box n{node} known={} ok={}", known.is_some(), res.is_ok()));
            match res {
                Ok(r) => {
                    let v: serde_json::Value = serde_json::from_str(&r).map_err(|e| e.to_string())?;
                    let id = v["Box"]["items"][0]["id"].as_str().ok_or("no nested id")?.to_string();
                    if known.is_none() {
                        c.rows[*row] = Row { id: Some(id.clone()), ent: 0, room: room_ix };
                        c.w.log.log(format!("row#{row} id={id}"));
                    }
                    c.last_written = Some(id);
                    c.any_op = true;
                    note_tokens(c, text);
                    c.acked.entry(*row).or_default().insert(text.clone());
                    after_local_write(c, node, room_ix, 0)?;
                }
                Err(e) => {
                    c.w.log.log(format!("in-box failed: {e}"));
                    if e.starts_with("HUNG") {
                        return Err(e);
                    }
                }
            }
        }
        Step::Nick { node, row, text, dt } => {
            let node = *node % c.cfg.nodes;
            let Some((id, ent, room)) = row_of(c, *row) else { return Ok(()) };
            if !up(c, node) || ent != 0 {
                return Ok(());
            }
            let n = &mut c.w.nodes[node];
            let (q, p) = match text {
                Some(t) => (
                    "mutate { Person{ id:$id nick:$n } }".to_string(),
                    serde_json::json!({"id": id, "n": t}).to_string(),
                ),
                None => (
                    "mutate { Person{ id:$id nick:null } }".to_string(),
                    serde_json::json!({"id": id}).to_string(),
                ),
            };
            let res = n.mutate(&q, Some(&p));
            c.w.log.sched(format!("nick n{node} null={} ok={}", text.is_none(), res.is_ok()));
            if let Err(e) = &res {
                c.w.log.log(format!("nick failed: {e}"));
                if e.starts_with("HUNG") {
                    return Err(e.clone());
                }
            } else {
                if let Some(t) = text {
                    note_tokens(c, t);
                    c.row_texts.entry(id.clone()).or_default().push(t.clone());
                }
                c.last_written = Some(id.clone());
                after_local_write(c, node, room, ent)?;
            }
        }
        Step::RefAdd { node, row, target, dt } | Step::PetSet { node, row, target, dt } => {
            let node = *node % c.cfg.nodes;
            let Some((id, ent, room)) = row_of(c, *row) else { return Ok(()) };
            let Some((tid, tent, _)) = row_of(c, *target) else { return Ok(()) };
            let is_pet = matches!(st, Step::PetSet { .. });
            if !up(c, node) || ent != 0 || (is_pet && tent != 1) || (!is_pet && tent != 0) {
                return Ok(());
            }
            let n = &mut c.w.nodes[node];
            let q = if is_pet {
                "mutate { Person{ id:$id pet:{id:$t} } }"
            } else {
                "mutate { Person{ id:$id parents:[{id:$t}] } }"
            };
            let p = serde_json::json!({"id": id, "t": tid}).to_string();
            let res = n.mutate(q, Some(&p));
            c.w.log.sched(format!("ref{} n{node} ok={}", if is_pet { "set" } else { "add" }, res.is_ok()));
            if let Err(e) = &res {
                c.w.log.log(format!("ref failed: {e}"));
                if e.starts_with("HUNG") {
                    return Err(e.clone());
                }
            } else {
                c.any_op = true;
                after_local_write(c, node, room, ent)?;
            }
        }
        Step::RefDel { node, row, target, dt } => {
            let node = *node % c.cfg.nodes;
            let Some((id, ent, room)) = row_of(c, *row) else { return Ok(()) };
            let Some((tid, _, _)) = row_of(c, *target) else { return Ok(()) };
            if !up(c, node) || ent != 0 {
                return Ok(());
            }
            let n = &mut c.w.nodes[node];
            let p = serde_json::json!({"id": id, "t": tid}).to_string();
            let res = n.delete("delete { Person{ $id parents[$t] } }", Some(&p));
            c.w.log.sched(format!("refdel n{node} ok={}", res.is_ok()));
            if let Err(e) = &res {
                c.w.log.log(format!("refdel failed: {e}"));
                if e.starts_with("HUNG") {
                    return Err(e.clone());
                }
            } else {
                c.any_op = true;
                let _ = ent;
                after_local_write(c, node, room, 255)?;
            }
        }
        Step::Delete { node, row, dt } => {
            let node = *node % c.cfg.nodes;
            let Some((id, ent, room)) = row_of(c, *row) else { return Ok(()) };
            if !up(c, node) {
                return Ok(());
            }
            let n = &mut c.w.nodes[node];
            let p = serde_json::json!({"id": id}).to_string();
            let q = format!("delete {{ {}{{ $id }} }}", ent_name(ent));
            let res = n.delete(&q, Some(&p));
            c.w.log.sched(format!("delete n{node} ok={}", res.is_ok()));
            if let Err(e) = &res {
                c.w.log.log(format!("delete failed: {e}"));
                if e.starts_with("HUNG") {
                    return Err(e.clone());
                }
            } else {
                c.any_op = true;
                after_local_write(c, node, room, ent)?;
            }
        }
        Step::Pull { puller, server, room, cut } => {
            let p = *puller % c.cfg.nodes;
            let s = *server % c.cfg.nodes;
            let room = *room % c.cfg.rooms;
            if p == s || !up(c, p) || !up(c, s) {
                return Ok(());
            }
            do_pull(c, p, s, room, *cut)?;
        }
        Step::Open { sid, puller, server, room } => {
            let p = *puller % c.cfg.nodes;
            let s = *server % c.cfg.nodes;
            let room = *room % c.cfg.rooms;
            if p == s || !up(c, p) || !up(c, s) || c.sessions.contains_key(sid) {
                return Ok(());
            }
            // one session per puller at a time on a given room is what the lock service guarantees
            if c.sessions.values().any(|x| x.puller == p && x.room == c.rooms[room].0) {
                return Ok(());
            }
            let uid = c.rooms[room].0;
            let (pn, sn) = c.w.two(p, s);
            let mut sess = Session::open(pn, sn, uid);
            sess.pump_puller(pn).map_err(|e| format!("{e:?}"))?;
            c.w.log.sched(format!("open s{sid} n{p}<-n{s}"));
            c.sessions.insert(*sid, sess);
        }
        Step::Deliver { sid, n } => {
            let Some(mut sess) = c.sessions.remove(sid) else { return Ok(()) };
            let (p, s) = (sess.puller, sess.server);
            if !up(c, p) || !up(c, s) {
                sess.abandon();
                return Ok(());
            }
            let mut done = 0;
            let mut finished = false;
            while done < *n {
                if sess.finished() {
                    finished = true;
                    break;
                }
                let (pn, sn) = c.w.two(p, s);
                let progressed = if sess.deliver_answer(pn).map_err(|e| format!("{e:?}"))? {
                    true
                } else {
                    sess.deliver_query(sn).map_err(|e| format!("{e:?}"))?
                };
                if !progressed {
                    pn.settle().map_err(|e| format!("{e:?}"))?;
                    sess.pump_puller(pn).map_err(|e| format!("{e:?}"))?;
                    if sess.pending_queries.is_empty() && sess.pending_answers.is_empty() {
                        finished = sess.finished();
                        break;
                    }
                }
                done += 1;
            }
            c.w.log.sched(format!("deliver s{sid} n={done} fin={finished}"));
            if sess.finished() {
                let end = sess.result(&mut c.w.nodes[p]);
                c.w.log.log(format!("session s{sid} end={end:?} trace={}", sess.trace.join(" ")));
                sess.abandon();
                after_pull(c, p, end == Some(SessionEnd::Ok))?;
            } else if *n >= 100000 {
                // should have completed
                c.w.log.log(format!("session s{sid} stuck trace={}", sess.trace.join(" ")));
                sess.abandon();
                c.w.harness_error(format!("stepped session stuck after full delivery"));
            } else {
                c.sessions.insert(*sid, sess);
            }
        }
        Step::Cut { sid } => {
            let Some(mut sess) = c.sessions.remove(sid) else { return Ok(()) };
            let p = sess.puller;
            if up(c, p) {
                sess.cut(&mut c.w.nodes[p]).map_err(|e| format!("{e:?}"))?;
                // if the task is waiting on a one-shot query it needs the timeout to fire
                if !sess.finished() {
                    c.w.nodes[p]
                        .advance_timers(std::time::Duration::from_secs(dv::NETWORK_TIMEOUT_SEC + 1))
                        .map_err(|e| format!("{e:?}"))?;
                }
                let end = sess.result(&mut c.w.nodes[p]);
                c.w.log.log(format!("session s{sid} cut end={end:?} trace={}", sess.trace.join(" ")));
            }
            sess.abandon();
            c.w.fault("cut");
            c.w.log.sched(format!("cut s{sid}"));
            if up(c, p) {
                c.w.nodes[p].settle().map_err(|e| format!("{e:?}"))?;
            }
        }
        Step::Crash { node } => {
            let node = *node % c.cfg.nodes;
            if !up(c, node) {
                return Ok(());
            }
            // sessions touching this node die with it
            let sids: Vec<usize> = c
                .sessions
                .iter()
                .filter(|(_, s)| s.puller == node || s.server == node)
                .map(|(k, _)| *k)
                .collect();
            for sid in sids {
                let mut s = c.sessions.remove(&sid).unwrap();
                let p = s.puller;
                s.abandon();
                if p != node && up(c, p) {
                    let _ = s.cut(&mut c.w.nodes[p]);
                }
                drop(s);
            }
            let left = c.w.nodes[node].stop();
            if left != 0 {
                c.w.harness_error(format!("crash n{node}: {left} helper threads still alive"));
            }
            c.w.fault("crash");
            let r = c.w.nodes[node].start();
            c.w.log.sched(format!("crash-restart n{node} ok={}", r.is_ok()));
            match r {
                Ok(()) => {
                    let ab = c.cfg.answer_bytes;
                    apply_answer_bytes(&mut c.w.nodes[node], ab);
                    c.w.fault("restart");
                }
                Err(e) => {
                    c.w.violation("C10", "restart-failed/repl-workload", format!("restart of n{node} failed: {e}"));
                }
            }
        }
        Step::ClockJump { node, by } => {
            let node = *node % c.cfg.nodes;
            c.offset[node] += *by;
            sync_clocks(c);
            c.w.fault(if *by < 0 { "clock_jump_back" } else { "clock_jump_fwd" });
            c.w.log.sched(format!("clockjump n{node} {}", if *by < 0 { "back" } else { "fwd" }));
        }
        Step::Check => {
            barrier_checks(c)?;
        }
    }
    Ok(())
}

fn row_of(c: &Ctx, row: usize) -> Option<(String, u8, usize)> {
    let r = c.rows.get(row)?;
    Some((r.id.clone()?, r.ent, r.room))
}

fn note_tokens(c: &mut Ctx, text: &str) {
    for t in text.split(' ') {
        if t.len() >= 3 {
            c.tokens.insert(t.to_string());
        }
    }
}

fn do_pull(c: &mut Ctx, p: usize, s: usize, room: usize, cut: Option<usize>) -> Result<(), String> {
    let uid = c.rooms[room].0;
    let before = if has(&c.cfg, "C18") { Some(dump(c, p, room)?) } else { None };
    let (pn, sn) = c.w.two(p, s);
    let _ = pn.drain_events();
    let (end, mut sess) = net::pull(pn, sn, uid, cut).map_err(|e| format!("pull hung: {e:?}"))?;
    let ok = end == SessionEnd::Ok;
    let kinds: Vec<&str> = sess.requests_seen.clone();
    c.w.log.sched(format!(
        "pull n{p}<-n{s} cut={} end={} reqs={}",
        cut.is_some(),
        match &end {
            SessionEnd::Ok => "ok",
            SessionEnd::Cut => "cut",
            SessionEnd::Err(_) => "err",
        },
        kinds.join(",")
    ));
    c.w.log.log(format!("pull end={end:?} trace={}", sess.trace.join(" ")));
    if sess.trace.iter().any(|t| t == "CUT") {
        c.w.fault("cut");
    }
    if kinds.contains(&"RoomLog") {
        c.w.probe("history_path");
    }
    if kinds.contains(&"RoomLogAt") {
        c.w.probe("last_day_path");
    }
    sess.abandon();
    drop(sess);
    if let SessionEnd::Err(e) = &end {
        // a fault-free pull between two live members must not fail
        if cut.is_none() {
            c.w.log.log(format!("fault-free pull failed: {e}"));
            c.w.probe("faultfree_pull_failed");
        }
    }
    if let Some(b) = before {
        check_c18_ingest(c, p, room, &b)?;
    }
    after_pull(c, p, ok)
}

fn after_pull(c: &mut Ctx, p: usize, _ok: bool) -> Result<(), String> {
    c.any_op = true;
    track_versions(c, p)?;
    Ok(())
}

fn after_local_write(c: &mut Ctx, node: usize, room: usize, ent: u8) -> Result<(), String> {
    track_versions(c, node)?;
    // ent == 255: the write re-dates a row without touching its text (reference deletion): the index is left as it was
    if has(&c.cfg, "C17") && ent != 255 {
        // the version of the mutated row stored on this node right after its own mutation
        if let Some(id) = c.last_written.clone() {
            c.step_local = Some((node, id.clone()));
            let d = dump(c, node, room)?;
            if let Ok(uid) = dv::uid_decode(&id) {
                for n in &d.nodes {
                    if n.id == uid.to_vec() {
                        c.local_sigs.insert((node, crate::kit::hex(&n.signature)));
                    }
                }
            }
        }
    }
    c.last_written = None;
    Ok(())
}

fn dump(c: &Ctx, node: usize, room: usize) -> Result<RoomDump, String> {
    let conn = c.w.nodes[node].oracle_conn()?;
    oracle::dump_room(&conn, &c.rooms[room].0)
}

/// remember the highest version of each row ever stored anywhere (needed by the C11 end clause)
fn track_versions(c: &mut Ctx, node: usize) -> Result<(), String> {
    for r in 0..c.cfg.rooms {
        let d = dump(c, node, r)?;
        for n in &d.nodes {
            let e = c.max_mdate.entry(n.id.clone()).or_insert(n.mdate);
            if n.mdate > *e {
                *e = n.mdate;
            }
        }
        c.w.states.insert(d.content_digest());
    }
    Ok(())
}

// ---------------------------------------------------------------------------------------
// C11: after every step, on every node
// ---------------------------------------------------------------------------------------
fn check_c11_all(c: &mut Ctx) {
    for node in 0..c.cfg.nodes {
        if !up(c, node) {
            continue;
        }
        for r in 0..c.cfg.rooms {
            let d = match dump(c, node, r) {
                Ok(d) => d,
                Err(e) => {
                    c.w.harness_error(format!("dump: {e}"));
                    return;
                }
            };
            check_c11_dump(c, node, &d);
        }
    }
}

fn check_c11_dump(c: &mut Ctx, node: usize, d: &RoomDump) {
    for t in &d.node_del {
        for n in &d.nodes {
            if n.id == t.id && n.entity == t.entity && n.mdate <= t.mdate {
                c.w.violation(
                    "C11",
                    "visible-after-tombstone/node",
                    format!(
                        "node n{node}: row {} (mdate {}) is stored although n{node} holds a tombstone for version {} (deleted at {})",
                        crate::kit::short(&n.id), n.mdate, t.mdate, t.deletion_date
                    ),
                );
            }
        }
    }
    for t in &d.edge_del {
        for e in &d.edges {
            if e.src == t.src && e.label == t.label && e.dest == t.dest && e.cdate <= t.cdate {
                c.w.violation(
                    "C11",
                    "visible-after-tombstone/reference",
                    format!(
                        "node n{node}: reference {}-{}->{} (cdate {}) is stored although a tombstone for cdate {} is held",
                        crate::kit::short(&e.src), e.label, crate::kit::short(&e.dest), e.cdate, t.cdate
                    ),
                );
            }
        }
    }
}

// ---------------------------------------------------------------------------------------
// C18 (ingestion part): rows that appeared through a pull must be announced
// ---------------------------------------------------------------------------------------
fn check_c18_ingest(c: &mut Ctx, p: usize, room: usize, before: &RoomDump) -> Result<(), String> {
    let after = dump(c, p, room)?;
    let evs = c.w.nodes[p].drain_events();
    if c.w.nodes[p].events_lagged > 0 {
        c.w.probe("c18_subscriber_lagged_not_judged");
        c.w.nodes[p].events_lagged = 0;
        return Ok(());
    }
    let mut announced: BTreeSet<(String, i64)> = BTreeSet::new();
    let rid = c.rooms[room].1.clone();
    for e in evs {
        if let Event::DataChanged(dm) = e {
            if let Some(ents) = dm.rooms.get(&rid) {
                for (ent, days) in ents {
                    for d in days {
                        announced.insert((ent.clone(), *d));
                    }
                }
            }
        }
    }
    let old: BTreeSet<String> = before.nodes.iter().map(|n| n.line()).collect();
    let oldd: BTreeSet<String> = before.node_del.iter().map(|n| n.line()).collect();
    let names = [("0", "Person"), ("1", "Pet")];
    let name_of = |short: &str| -> String {
        names.iter().find(|x| x.0 == short).map(|x| x.1.to_string()).unwrap_or(short.to_string())
    };
    for n in &after.nodes {
        if !old.contains(&n.line()) {
            let k = (name_of(&n.entity), day_of(n.mdate));
            c.w.probe("c18_ingested_row");
            if !announced.contains(&k) {
                c.w.violation(
                    "C18",
                    "change-not-announced/ingested-row",
                    format!("n{p}: row {} of {} day {} arrived by pull, no DataChanged names it (announced: {:?})", crate::kit::short(&n.id), k.0, k.1, announced),
                );
            }
        }
    }
    for n in &after.node_del {
        if !oldd.contains(&n.line()) {
            let k = (name_of(&n.entity), day_of(n.deletion_date));
            c.w.probe("c18_ingested_tombstone");
            if !announced.contains(&k) {
                c.w.violation(
                    "C18",
                    "change-not-announced/ingested-deletion",
                    format!("n{p}: deletion of {} ({} day {}) arrived by pull, no DataChanged names it (announced: {:?})", crate::kit::short(&n.id), k.0, k.1, announced),
                );
            }
        }
    }
    Ok(())
}

// ---------------------------------------------------------------------------------------
// barrier checks: C09 and C17
// ---------------------------------------------------------------------------------------
fn barrier_checks(c: &mut Ctx) -> Result<(), String> {
    c.w.log.sched("check");
    if has(&c.cfg, "C09") {
        for node in 0..c.cfg.nodes {
            if up(c, node) {
                c.w.nodes[node].compute_daily_log().map_err(|e| format!("{e:?}"))?;
            }
        }
        check_c09(c)?;
    }
    if has(&c.cfg, "C17") {
        check_c17(c)?;
    }
    Ok(())
}

fn check_c09(c: &mut Ctx) -> Result<(), String> {
    for r in 0..c.cfg.rooms {
        let mut dumps: Vec<(usize, RoomDump)> = vec![];
        for node in 0..c.cfg.nodes {
            if up(c, node) {
                dumps.push((node, dump(c, node, r)?));
            }
        }
        for (node, d) in &dumps {
            c.w.probe("c09_barrier");
            if c.w.log.keep {
                for l in d.daily_lines() {
                    c.w.log.log(format!("  n{node} {l}"));
                }
            }
            for (clause, detail) in oracle::check_daily_against_dump(d) {
                c.w.violation("C09", &clause, format!("n{node} room{r}: {detail}"));
            }
            let rebuilt = oracle::rebuild_daily(d, &c.rooms[r].0)?;
            // rows of the incremental log with zero entries and no hash are compared only on days with content
            let norm = |v: &Vec<oracle::DailyRow>| -> Vec<String> {
                v.iter().map(|x| x.line()).collect()
            };
            let a = norm(&d.daily);
            let b = norm(&rebuilt);
            if a != b {
                let diff = oracle::first_diff(&a, &b).unwrap_or_default();
                let clause = if d.daily.iter().zip(rebuilt.iter()).all(|(x, y)| {
                    x.entry_number == y.entry_number && x.daily_hash == y.daily_hash
                }) && d.daily.len() == rebuilt.len()
                {
                    "history-depends-on-schedule"
                } else {
                    "stale-or-wrong-daily"
                };
                c.w.violation(
                    "C09",
                    clause,
                    format!("n{node} room{r}: incremental log differs from from-scratch rebuild: {diff}"),
                );
            }
        }
        for i in 0..dumps.len() {
            for j in (i + 1)..dumps.len() {
                let same_content = dumps[i].1.content_lines() == dumps[j].1.content_lines();
                let same_log = dumps[i].1.daily_lines() == dumps[j].1.daily_lines();
                // "different rows or deletion records => different logs": references are outside this clause
                let same_logged = dumps[i].1.logged_lines() == dumps[j].1.logged_lines();
                if same_content && !same_log {
                    let diff = oracle::first_diff(&dumps[i].1.daily_lines(), &dumps[j].1.daily_lines()).unwrap_or_default();
                    c.w.violation(
                        "C09",
                        "equal-content-different-log",
                        format!("room{r}: n{} and n{} store the same rows but different logs: {diff}", dumps[i].0, dumps[j].0),
                    );
                }
                if !same_logged && same_log && !dumps[i].1.daily.is_empty() {
                    let diff = oracle::first_diff(&dumps[i].1.logged_lines(), &dumps[j].1.logged_lines()).unwrap_or_default();
                    c.w.violation(
                        "C09",
                        "different-content-equal-log",
                        format!("room{r}: n{} and n{} store different rows but identical logs: {diff}", dumps[i].0, dumps[j].0),
                    );
                }
            }
        }
    }
    Ok(())
}

fn update_sig_maps(c: &mut Ctx) -> Result<(), String> {
    while c.sig_maps.len() < c.cfg.nodes {
        c.sig_maps.push(BTreeMap::new());
    }
    for node in 0..c.cfg.nodes {
        if !up(c, node) {
            continue;
        }
        let mut m = BTreeMap::new();
        for r in 0..c.cfg.rooms {
            for n in dump(c, node, r)?.nodes {
                m.insert(dv::base64_encode(&n.id), crate::kit::hex(&n.signature));
            }
        }
        for (id, sig) in &m {
            if let Some(old) = c.sig_maps[node].get(id) {
                if old != sig && c.step_local != Some((node, id.clone())) {
                    c.synced_over.insert((node, id.clone()));
                }
            }
        }
        c.sig_maps[node] = m;
    }
    c.step_local = None;
    Ok(())
}

fn sig_of(c: &Ctx, node: usize, id_b64: &str) -> Result<Option<String>, String> {
    let id = dv::uid_decode(id_b64).map_err(|e| e.to_string())?;
    for r in 0..c.cfg.rooms {
        let d = dump(c, node, r)?;
        if let Some(n) = d.nodes.iter().find(|n| n.id == id.to_vec()) {
            return Ok(Some(crate::kit::hex(&n.signature)));
        }
    }
    Ok(None)
}

fn check_c17(c: &mut Ctx) -> Result<(), String> {
    let tokens: Vec<String> = c.tokens.iter().cloned().collect();
    for node in 0..c.cfg.nodes {
        if !up(c, node) {
            continue;
        }
        for ent in ["Person", "Pet"] {
            let fields = if ent == "Person" { "id name nick" } else { "id name" };
            let all = c.w.nodes[node].query(&format!("query {{ {ent}(order_by(id asc)){{ {fields} }} }}"), None)?;
            let v: serde_json::Value = serde_json::from_str(&all).map_err(|e| e.to_string())?;
            let rows = v[ent].as_array().cloned().unwrap_or_default();
            for tok in &tokens {
                let mut expect: BTreeSet<String> = BTreeSet::new();
                for r in &rows {
                    let mut text = r["name"].as_str().unwrap_or("").to_string();
                    if let Some(n) = r["nick"].as_str() {
                        text.push(' ');
                        text.push_str(n);
                    }
                    if text.contains(tok.as_str()) {
                        expect.insert(r["id"].as_str().unwrap_or("").to_string());
                    }
                }
                let p = serde_json::json!({"s": tok}).to_string();
                let res = c.w.nodes[node].query(&format!("query {{ {ent}(search($s)){{ id }} }}"), Some(&p))?;
                let v: serde_json::Value = serde_json::from_str(&res).map_err(|e| e.to_string())?;
                let got: BTreeSet<String> = v[ent]
                    .as_array()
                    .cloned()
                    .unwrap_or_default()
                    .iter()
                    .map(|x| x["id"].as_str().unwrap_or("").to_string())
                    .collect();
                c.w.probe("c17_search");
                if let Some(m) = expect.difference(&got).next() {
                    // how did the version this node stores arrive?
                    let sig = sig_of(c, node, m)?;
                    let how = match sig {
                        Some(s) if c.local_sigs.contains(&(node, s.clone())) => "written-locally",
                        Some(_) => "received-by-synchronisation",
                        None => "unknown",
                    };
                    c.w.violation(
                        "C17",
                        &format!("missed-current-text/{how}"),
                        format!("n{node}: search(\"{tok}\") on {ent} misses row {m} whose current text contains it ({how})"),
                    );
                }
                if let Some(m) = got.difference(&expect).next() {
                    // did the row itself ever carry the token (old text not removed) or is it another row's text (slot reuse)?
                    let own = c.rows.iter().enumerate().any(|(i, r)| {
                        r.id.as_deref() == Some(m.as_str())
                            && c.acked.get(&i).map(|s| s.iter().any(|t| t.contains(tok.as_str()))).unwrap_or(false)
                    }) || c.row_texts.get(m).map(|v| v.iter().any(|t| t.contains(tok.as_str()))).unwrap_or(false);
                    let cur_local = match sig_of(c, node, m)? {
                        Some(s) => c.local_sigs.contains(&(node, s)),
                        None => false,
                    };
                    // texts of rows this node holds a deletion record for
                    let mut deleted_here = false;
                    for r in 0..c.cfg.rooms {
                        let d = dump(c, node, r)?;
                        for t in &d.node_del {
                            let idb = dv::base64_encode(&t.id);
                            let in_acked = c.rows.iter().enumerate().any(|(i, row)| {
                                row.id.as_deref() == Some(idb.as_str())
                                    && c.acked.get(&i).map(|s| s.iter().any(|x| x.contains(tok.as_str()))).unwrap_or(false)
                            });
                            let in_nick = c.row_texts.get(&idb).map(|v| v.iter().any(|x| x.contains(tok.as_str()))).unwrap_or(false);
                            if in_acked || in_nick {
                                deleted_here = true;
                            }
                        }
                    }
                    let how = if deleted_here {
                        "text-of-a-deleted-row-in-a-reused-slot"
                    } else if own && c.synced_over.contains(&(node, m.clone())) {
                        "own-previous-text-replaced-by-synchronisation"
                    } else if own && cur_local {
                        "own-previous-text-replaced-locally"
                    } else if own {
                        "own-previous-text-replaced-by-synchronisation"
                    } else {
                        "text-of-a-deleted-row-in-a-reused-slot"
                    };
                    c.w.violation(
                        "C17",
                        &format!("stale-match/{how}"),
                        format!("n{node}: search(\"{tok}\") on {ent} returns row {m} whose current text does not contain it ({how})"),
                    );
                }
            }
        }
    }
    Ok(())
}

// ---------------------------------------------------------------------------------------
// finale: heal phase and end-of-run oracles
// ---------------------------------------------------------------------------------------
fn finale(c: &mut Ctx) -> Result<(), String> {
    // open sessions are abandoned (equivalent to a cut)
    let sids: Vec<usize> = c.sessions.keys().cloned().collect();
    for sid in sids {
        let mut s = c.sessions.remove(&sid).unwrap();
        let p = s.puller;
        if up(c, p) {
            let _ = s.cut(&mut c.w.nodes[p]);
            if !s.finished() {
                let _ = c.w.nodes[p].advance_timers(std::time::Duration::from_secs(dv::NETWORK_TIMEOUT_SEC + 1));
            }
        }
        s.abandon();
    }
    // every node must be up for the heal phase
    for node in 0..c.cfg.nodes {
        if !up(c, node) {
            return Ok(());
        }
    }
    let need_heal = has(&c.cfg, "C03") || has(&c.cfg, "C11") || has(&c.cfg, "C09") || has(&c.cfg, "C17");
    if !need_heal {
        return Ok(());
    }
    let n = c.cfg.nodes;
    let bound = if c.cfg.heal_bound > 0 { c.cfg.heal_bound } else { 2 * n + 3 };
    let mut converged = false;
    let mut rounds = 0;
    if n > 1 {
        for round in 0..bound {
            rounds = round + 1;
            let before = digests(c)?;
            let mut transfers = 0;
            for p in 0..n {
                for s in 0..n {
                    if p == s {
                        continue;
                    }
                    for r in 0..c.cfg.rooms {
                        let uid = c.rooms[r].0;
                        let (pn, sn) = c.w.two(p, s);
                        let (end, mut sess) = net::pull(pn, sn, uid, None).map_err(|e| format!("heal pull hung: {e:?}"))?;
                        if sess.requests_seen.iter().any(|k| *k == "Nodes" || *k == "Edges") {
                            transfers += 1;
                        }
                        c.w.log.log(format!("heal pull n{p}<-n{s} room{r} end={end:?} trace={}", sess.trace.join(" ")));
                        sess.abandon();
                        if end != SessionEnd::Ok {
                            c.w.log.log(format!("heal pull n{p}<-n{s} room{r} failed: {end:?}"));
                            c.w.probe("heal_pull_failed");
                        }
                        if has(&c.cfg, "C11") {
                            let d = dump(c, p, r)?;
                            check_c11_dump(c, p, &d);
                        }
                    }
                }
            }
            let after = digests(c)?;
            c.w.log.sched(format!("heal round {round} changed={} transfers={transfers}", before != after));
            if before == after {
                converged = true;
                // idempotence: a silent round must also issue no row transfer request
                if has(&c.cfg, "C03") && transfers > 0 {
                    c.w.violation(
                        "C03",
                        "extra-round-transfers",
                        format!("a heal round changed nothing but {transfers} sessions still requested rows"),
                    );
                }
                break;
            }
        }
    } else {
        converged = true;
    }
    c.w.probe(&format!("heal_rounds_{rounds}"));
    if has(&c.cfg, "C03") {
        if !converged {
            c.w.violation(
                "C03",
                "no-convergence-in-bound",
                format!("{bound} full rounds of pairwise pulls still change content"),
            );
        } else {
            check_c03_equal(c)?;
        }
    }
    if has(&c.cfg, "C11") && converged {
        check_c11_end(c)?;
    }
    if has(&c.cfg, "C17") {
        update_sig_maps(c)?;
    }
    if converged && (has(&c.cfg, "C09") || has(&c.cfg, "C17")) {
        barrier_checks(c)?;
    }
    Ok(())
}

fn digests(c: &Ctx) -> Result<Vec<String>, String> {
    let mut v = vec![];
    for node in 0..c.cfg.nodes {
        for r in 0..c.cfg.rooms {
            v.push(dump(c, node, r)?.full_digest());
        }
    }
    Ok(v)
}

/// what the synchronisation protocol compares first: the summary of a room's log
fn summary(c: &Ctx, node: usize, room: usize) -> Result<String, String> {
    let conn = c.w.nodes[node].oracle_conn()?;
    let d = dv::RoomDefinitionLog::get(&c.rooms[room].0, &conn).map_err(|e| e.to_string())?;
    Ok(match d {
        Some(d) => format!(
            "{:?}|{:?}|{:?}",
            d.last_data_date,
            d.daily_hash.map(|h| crate::kit::hex(&h)),
            d.history_hash.map(|h| crate::kit::hex(&h))
        ),
        None => "none".into(),
    })
}

/// pairs of nodes whose content differs although the summaries the protocol compares are equal
/// (known finding: the summary covers one entity only); only meaningful when several entities share a room
fn summary_blind(c: &Ctx) -> Result<Option<String>, String> {
    if c.cfg.entities < 2 {
        return Ok(None);
    }
    for r in 0..c.cfg.rooms {
        for i in 0..c.cfg.nodes {
            for j in (i + 1)..c.cfg.nodes {
                let (di, dj) = (dump(c, i, r)?, dump(c, j, r)?);
                if di.content_lines() != dj.content_lines() && summary(c, i, r)? == summary(c, j, r)? {
                    let diff = oracle::first_diff(&di.content_lines(), &dj.content_lines()).unwrap_or_default();
                    return Ok(Some(format!("n{i} and n{j} differ on room{r} ({diff}) but their log summaries are equal, so a pull transfers nothing")));
                }
            }
        }
    }
    Ok(None)
}

fn check_c03_equal(c: &mut Ctx) -> Result<(), String> {
    if let Some(detail) = summary_blind(c)? {
        c.w.violation("C03", "diverged/summary-blind-multi-entity", detail);
        return Ok(());
    }
    for r in 0..c.cfg.rooms {
        let d0 = dump(c, 0, r)?;
        c.w.states.insert(d0.content_digest());
        for node in 1..c.cfg.nodes {
            let d = dump(c, node, r)?;
            if d.content_lines() != d0.content_lines() {
                let diff = oracle::first_diff(&d0.content_lines(), &d.content_lines()).unwrap_or_default();
                let table = diff.split(' ').nth(1).unwrap_or("?").to_string();
                // shape: does the differing row have a tombstone anywhere?
                let shape = if diff.contains(" ND ") || diff.contains(" ED ") {
                    "deletion-record"
                } else if table == "E" {
                    // a reference present on one peer only: was it added with a version of its source row that lost
                    // against a concurrent version (references travel only with newer source rows)?
                    let src = diff.split("src=").nth(1).map(|s| s.split(' ').next().unwrap_or("")).unwrap_or("");
                    let cdate: i64 = diff.split(" c=").nth(1).map(|s| s.split(' ').next().unwrap_or("0")).unwrap_or("0").parse().unwrap_or(0);
                    let m0 = d0.nodes.iter().find(|n| crate::kit::hex(&n.id) == src).map(|n| (n.mdate, n.signature.clone()));
                    let m1 = d.nodes.iter().find(|n| crate::kit::hex(&n.id) == src).map(|n| (n.mdate, n.signature.clone()));
                    // same millisecond: the version that carried the reference lost the tie against a version written by somebody else
                    let edge_author = diff.split(" a=").nth(1).map(|s| s.split(' ').next().unwrap_or("")).unwrap_or("").to_string();
                    let source_author = d0.nodes.iter().find(|n| crate::kit::hex(&n.id) == src).map(|n| crate::kit::hex(&n.author)[..12].to_string()).unwrap_or_default();
                    let lost_the_tie = m0.as_ref().map(|a| cdate == a.0).unwrap_or(false) && edge_author != source_author;
                    // or does it point to a row that one peer deleted while another wrote a newer version of it (the row
                    // comes back everywhere, the references the deletion removed locally do not)?
                    let dest = diff.split("dest=").nth(1).map(|s| s.split(' ').next().unwrap_or("")).unwrap_or("");
                    // (the target may live in another room: the deletion records of every room are looked at)
                    let mut target_was_deleted = d0.node_del.iter().chain(d.node_del.iter()).any(|t| crate::kit::hex(&t.id) == dest);
                    for rr in 0..c.cfg.rooms {
                        if rr != r && !target_was_deleted {
                            for nn in [0, node] {
                                let dd = dump(c, nn, rr)?;
                                if dd.node_del.iter().any(|t| crate::kit::hex(&t.id) == dest) {
                                    target_was_deleted = true;
                                }
                            }
                        }
                    }
                    match (m0, m1) {
                        (Some(a), Some(b)) if a == b && target_was_deleted => "reference-to-a-row-deleted-on-one-peer-that-came-back-with-a-newer-version",
                        (Some(a), Some(b)) if a == b && (cdate < a.0 || lost_the_tie) => "reference-added-with-a-source-version-that-lost",
                        (Some(a), Some(b)) if a == b => "reference-missing-same-source-version",
                        _ => "source-row-differs",
                    }
                } else {
                    let id = diff.split("id=").nth(1).map(|s| s.split(' ').next().unwrap_or("")).unwrap_or("");
                    let tomb = d0.node_del.iter().chain(d.node_del.iter()).any(|t| crate::kit::hex(&t.id) == id);
                    if tomb {
                        "row-has-tombstone"
                    } else {
                        "plain"
                    }
                };
                c.w.violation(
                    "C03",
                    &format!("diverged/{table}:{shape}"),
                    format!("after a silent heal round n0 and n{node} differ on room{r}: {diff}"),
                );
            } else if d.daily_lines() != d0.daily_lines() {
                let diff = oracle::first_diff(&d0.daily_lines(), &d.daily_lines()).unwrap_or_default();
                c.w.violation(
                    "C03",
                    "diverged/daily-log",
                    format!("n0 and n{node} hold the same rows for room{r} but different daily logs: {diff}"),
                );
            }
        }
    }
    // query-level comparison (only meaningful when the stored content is equal: otherwise it repeats the finding above)
    if c.w.report.violations.iter().any(|v| v.fingerprint.starts_with("C03/diverged/")) {
        return Ok(());
    }
    let qs = [
        "query { Person(order_by(id asc)){ id room_id cdate mdate name nick parents(order_by(id asc)){ id name } pet{ id name } } }",
        "query { Pet(order_by(id asc)){ id room_id cdate mdate name } }",
    ];
    for q in qs {
        let r0 = c.w.nodes[0].query(q, None)?;
        for node in 1..c.cfg.nodes {
            let r = c.w.nodes[node].query(q, None)?;
            if r != r0 {
                c.w.violation(
                    "C03",
                    "diverged/query-result",
                    format!("after convergence n0 and n{node} answer differently: {} vs {}", r0.replace('\n', ""), r.replace('\n', "")),
                );
            }
        }
    }
    // the winner of concurrently updated rows is one of the acknowledged versions
    let r0 = c.w.nodes[0].query("query { Person(order_by(id asc)){ id name } }", None)?;
    let r1 = c.w.nodes[0].query("query { Pet(order_by(id asc)){ id name } }", None)?;
    let mut names: HashMap<String, String> = HashMap::new();
    for (r, ent) in [(r0, "Person"), (r1, "Pet")] {
        let v: serde_json::Value = serde_json::from_str(&r).map_err(|e| e.to_string())?;
        for x in v[ent].as_array().cloned().unwrap_or_default() {
            names.insert(x["id"].as_str().unwrap_or("").to_string(), x["name"].as_str().unwrap_or("").to_string());
        }
    }
    for (i, row) in c.rows.clone().iter().enumerate() {
        if let Some(id) = &row.id {
            if let Some(name) = names.get(id) {
                let ok = c.acked.get(&i).map(|s| s.contains(name)).unwrap_or(false);
                if !ok {
                    c.w.violation(
                        "C03",
                        "winner-not-acknowledged-version",
                        format!("row#{i} ends with name {name:?} which no acknowledged write produced"),
                    );
                }
            }
        }
    }
    Ok(())
}

fn check_c11_end(c: &mut Ctx) -> Result<(), String> {
    if let Some(detail) = summary_blind(c)? {
        c.w.violation("C11", "not-synchronised-after-heal/summary-blind-multi-entity", detail);
        return Ok(());
    }
    for r in 0..c.cfg.rooms {
        let mut tomb: BTreeMap<(Vec<u8>, String), i64> = BTreeMap::new();
        let mut dumps = vec![];
        for node in 0..c.cfg.nodes {
            let d = dump(c, node, r)?;
            for t in &d.node_del {
                let e = tomb.entry((t.id.clone(), t.entity.clone())).or_insert(t.mdate);
                if t.mdate > *e {
                    *e = t.mdate;
                }
            }
            dumps.push(d);
        }
        for ((id, ent), mdate) in &tomb {
            // rows updated after the deleted version are outside the statement
            if c.max_mdate.get(id).cloned().unwrap_or(0) > *mdate {
                continue;
            }
            for (node, d) in dumps.iter().enumerate() {
                if d.nodes.iter().any(|n| &n.id == id && &n.entity == ent) {
                    c.w.violation(
                        "C11",
                        "visible-after-tombstone/after-heal",
                        format!("after heal n{node} still stores row {} deleted at version {mdate}", crate::kit::short(id)),
                    );
                }
                if !d.node_del.iter().any(|t| &t.id == id && &t.entity == ent) {
                    c.w.violation(
                        "C11",
                        "tombstone-missing-after-heal",
                        format!("after heal n{node} holds no deletion record for row {}", crate::kit::short(id)),
                    );
                }
            }
        }
    }
    Ok(())
}
