//! Engine `byz`: an honest victim V runs the REAL pull (synchronise_room, signature verification, filter_existing,
//! add_nodes / add_edges / delete_nodes / add_room_node) while a man in the middle M, who holds its own key and every
//! validly signed row it was ever served, rewrites the answers of the honest source H.
//! C02: rows, references and deletion records that are not legitimate must leave no trace on V.
//! C06: a signature moved to a different row (splice) or obtained from the identity challenge must not yield a stored row.
//! C07: a crafted room definition never removes or alters existing entries and adds only entitled ones.
use crate::kit::{Rng, DAY_MS, T0};
use crate::net::{ServerSide, Session, SessionEnd};
use crate::node::SimNode;
use crate::oracle;
use crate::world::{Trace, World};
use discret::verif as dv;
use discret::verif::{Answer, RightType, SyncQuery, Uid};
use serde::{Deserialize, Serialize};
use std::collections::{BTreeMap, HashSet};
use std::rc::Rc;
use std::cell::RefCell;

pub const MODEL: &str = "{
    Person{ name:String, parents:[Person] }
    Pet{ name:String }
    E2{ a:String } E3{ a:String } E4{ a:String } E5{ a:String } E6{ a:String } E7{ a:String } E8{ a:String } E9{ a:String }
    E10{ refs:[Pet] }
}";

/// C06: entity "1" (Pet) gets 101 fields so that its 101st field ("132") is a reference field, and a 12th entity
/// ("11") has a reference field "32": the digest of a reference ("11","32") equals that of ("1","132")
pub fn model_for(prop: &str) -> String {
    if prop != "C06" {
        return MODEL.to_string();
    }
    let mut pet = String::from("Pet{ name:String");
    for i in 1..100 {
        pet.push_str(&format!(", f{i}:String nullable"));
    }
    pet.push_str(", friends:[Person] }");
    format!(
        "{{ Person{{ name:String, parents:[Person] }} {pet} E2{{ a:String }} E3{{ a:String }} E4{{ a:String }} E5{{ a:String }} E6{{ a:String }} E7{{ a:String }} E8{{ a:String }} E9{{ a:String }} E10{{ refs:[Pet] }} E11{{ refs:[Pet] }} }}"
    )
}

pub const OPS_C02: [&str; 21] = [
    "row-of-another-room",
    "author-without-right-on-entity",
    "row-dated-before-author-was-enabled",
    "row-dated-after-author-was-disabled",
    "foreign-row-replaced-with-own-rows-right-only",
    "tampered-fields-original-signature",
    "oversized-row",
    "model-violating-json",
    "unknown-entity",
    "reference-whose-source-row-is-in-another-room",
    "deletion-of-foreign-row-with-own-rows-right-only",
    "legitimate-row-of-the-adversary",
    "row-moved-from-a-room-without-right",
    "reference-whose-source-row-is-not-stored",
    "reference-on-foreign-row-with-own-rows-right-only",
    "reference-with-a-label-that-is-not-a-field",
    "row-moved-from-a-room-without-right-into-a-room-with-every-right",
    "reference-deletion-on-foreign-row-with-own-rows-right-only",
    "reference-deletion-naming-a-room-where-the-author-has-every-right",
    "row-deletion-naming-a-room-where-the-author-has-every-right",
    "deletion-of-own-row-dated-after-author-was-disabled",
];
pub const OPS_C06: [&str; 5] = ["reference-splice-entity-label", "signing-oracle-node", "signing-oracle-reference", "row-splice-json-binary", "row-splice-entity-json"];
pub const OPS_C07: [&str; 12] = [
    "older-definition-with-entries-omitted",
    "user-entry-reattached-as-admin",
    "self-signed-admin-entry",
    "self-signed-right-entry",
    "right-entry-of-another-room",
    "self-signed-user-admin-entry",
    "user-entry-moved-to-another-group",
    "existing-reference-signed-again-by-the-adversary",
    "entries-omitted-while-a-legitimate-entry-is-added",
    "user-entry-signed-by-a-revoked-user-admin",
    "existing-entry-altered-under-the-same-id",
    "right-signed-by-a-former-admin-after-its-revocation",
];
/// operators that make sense for an instance that never saw the room (omissions cannot be told from an older definition)
pub const FRESH_OPS_C07: [usize; 10] = [1, 2, 3, 4, 5, 6, 7, 9, 10, 11];

#[derive(Clone, Debug, Serialize, Deserialize)]
pub struct Cfg {
    pub answer_bytes: usize,
}

#[derive(Clone, Debug, Serialize, Deserialize)]
#[serde(tag = "t")]
pub enum Step {
    /// H writes honest rows on a new day (so that the next pull has something to synchronise)
    HonestWrite { dt: i64 },
    /// V pulls room r1 from H without interference
    HonestPull,
    /// H disables M in r1 (V learns it at its next pull)
    DisableM,
    /// V pulls r1 from H through the man in the middle applying operator `op` (index in the property's list)
    Attack { op: usize, alone: bool },
    /// C07: a member that has never seen r1 (node W) imports it through the man in the middle applying operator `op`
    AttackNew { op: usize },
}

struct Ctx {
    w: World,
    cfg: Cfg,
    prop: String,
    r1: (Uid, String),
    r2: (Uid, String),
    r3: (Uid, String),
    /// a room where the adversary has every right
    r4: (Uid, String),
    /// the room of the next session (r1 unless an operator says otherwise)
    session_room: Option<Uid>,
    g_full: String,
    g_m: String,
    now: i64,
    m_enabled_from: i64,
    m_disabled_from: Option<i64>,
    any: bool,
    counter: u64,
    /// content lines of V already reported (not reported again under a later operator's name)
    reported: HashSet<String>,
    /// ids of the rows the adversary was entitled to write
    legit_ids: Vec<String>,
    escalated: bool,
    fresh_used: bool,
    flagged: usize,
}

pub fn generate(seed: u64, property: &str, thorough: bool) -> Trace {
    let mut rc = Rng::stream(seed, "config");
    let mut rw = Rng::stream(seed, "workload");
    let nops = match property {
        "C02" => OPS_C02.len(),
        "C06" => OPS_C06.len(),
        _ => OPS_C07.len(),
    };
    let cfg = Cfg { answer_bytes: *rc.pick(&[0usize, 0, 400, 1500]) };
    let mut steps = vec![Step::HonestWrite { dt: 1000 }, Step::HonestPull];
    let n = if thorough { 6 + rw.usize(10) } else { 3 + rw.usize(5) };
    for _ in 0..n {
        if property == "C02" && rw.chance(1, 8) {
            // the adversary writes while it is entitled, is disabled, then acts on what it wrote
            steps.push(Step::HonestWrite { dt: DAY_MS });
            steps.push(Step::Attack { op: 11, alone: false });
            steps.push(Step::DisableM);
            steps.push(Step::HonestPull);
            steps.push(Step::HonestWrite { dt: *rw.pick(&[DAY_MS, 2 * DAY_MS]) });
            steps.push(Step::Attack { op: *rw.pick(&[20usize, 20, 3, 4]), alone: false });
            continue;
        }
        match rw.weighted(&[15, 10, 5, 70]) {
            0 => steps.push(Step::HonestWrite { dt: *rw.pick(&[1000i64, 3_600_000, DAY_MS, 2 * DAY_MS]) }),
            1 => steps.push(Step::HonestPull),
            2 => steps.push(Step::DisableM),
            _ => {
                steps.push(Step::HonestWrite { dt: *rw.pick(&[DAY_MS, 2 * DAY_MS]) });
                if property == "C07" && rw.chance(1, 5) {
                    steps.push(Step::AttackNew { op: *rw.pick(&FRESH_OPS_C07) });
                } else {
                    steps.push(Step::Attack { op: rw.usize(nops), alone: rw.chance(1, 3) });
                }
            }
        }
    }
    Trace {
        engine: "byz".into(),
        property: property.into(),
        seed,
        cfg: serde_json::to_value(&cfg).unwrap(),
        steps: steps.iter().map(|s| serde_json::to_value(s).unwrap()).collect(),
        expect_fingerprint: None,
        note: None,
    }
}

pub fn directed(property: &str) -> Vec<Trace> {
    let nops = match property {
        "C02" => OPS_C02.len(),
        "C06" => OPS_C06.len(),
        "C07" => OPS_C07.len(),
        _ => 0,
    };
    let mut out = vec![];
    if property == "C07" {
        // omissions (operators 0 and 8) cannot be told from an older definition by an instance that never saw the room
        for op in FRESH_OPS_C07.iter().flat_map(|op| [(*op, false), (*op, true)]) {
            let (op, disabled) = op;
            let mut steps = vec![Step::HonestWrite { dt: 1000 }];
            if disabled {
                steps.push(Step::DisableM);
            }
            steps.push(Step::AttackNew { op });
            out.push(Trace {
                engine: "byz".into(),
                property: property.into(),
                seed: 0,
                cfg: serde_json::to_value(&Cfg { answer_bytes: 0 }).unwrap(),
                steps: steps.iter().map(|s| serde_json::to_value(s).unwrap()).collect(),
                expect_fingerprint: None,
                note: Some(format!("C07 operator on a room not seen before{}: {}", if disabled { " (adversary disabled)" } else { "" }, OPS_C07[op])),
            });
        }
    }
    for op in 0..nops {
        let name = match property {
            "C02" => OPS_C02[op],
            "C06" => OPS_C06[op],
            _ => OPS_C07[op],
        };
        let mut steps = vec![Step::HonestWrite { dt: 1000 }, Step::HonestPull];
        if name == "row-dated-after-author-was-disabled" {
            steps.push(Step::DisableM);
            steps.push(Step::HonestPull);
        }
        if name == "deletion-of-own-row-dated-after-author-was-disabled" && property == "C02" {
            // first a legitimate row of the adversary (operator 11), then the adversary is disabled
            steps.push(Step::HonestWrite { dt: DAY_MS });
            steps.push(Step::Attack { op: 11, alone: false });
            steps.push(Step::DisableM);
            steps.push(Step::HonestPull);
        }
        steps.push(Step::HonestWrite { dt: DAY_MS });
        steps.push(Step::Attack { op, alone: false });
        out.push(Trace {
            engine: "byz".into(),
            property: property.into(),
            seed: 0,
            cfg: serde_json::to_value(&Cfg { answer_bytes: 0 }).unwrap(),
            steps: steps.iter().map(|s| serde_json::to_value(s).unwrap()).collect(),
            expect_fingerprint: None,
            note: Some(format!("{property} operator: {name}")),
        });
    }
    out
}

pub fn execute(trace: &Trace, keep_log: bool) -> (crate::kit::RunReport, Vec<String>) {
    let cfg: Cfg = serde_json::from_value(trace.cfg.clone()).expect("bad byz cfg");
    let steps: Vec<Step> = trace.steps.iter().filter_map(|s| serde_json::from_value(s.clone()).ok()).collect();
    let w = World::new("byz", trace.seed, keep_log);
    let mut c = Ctx {
        w,
        cfg,
        prop: trace.property.clone(),
        r1: ([0; 16], String::new()),
        r2: ([0; 16], String::new()),
        r3: ([0; 16], String::new()),
        r4: ([0; 16], String::new()),
        session_room: None,
        g_full: String::new(),
        g_m: String::new(),
        now: T0,
        m_enabled_from: 0,
        m_disabled_from: None,
        any: false,
        counter: 0,
        reported: HashSet::new(),
        legit_ids: vec![],
        escalated: false,
        fresh_used: false,
        flagged: 0,
    };
    if let Err(e) = setup(&mut c) {
        c.w.harness_error(format!("setup: {e}"));
        return c.w.finish();
    }
    for (i, st) in steps.iter().enumerate() {
        c.w.step_no = i + 1;
        if let Err(e) = exec_step(&mut c, st) {
            c.w.harness_error(format!("step {i} {st:?}: {e}"));
            break;
        }
    }
    c.w.report.nontrivial = c.any;
    c.w.finish()
}

const H: usize = 0;
const V: usize = 1;
const M: usize = 2;
const W: usize = 3;

/// the key of the former admin K of room r1 (C07)
fn former_admin_key() -> dv::Ed25519SigningKey {
    dv::Ed25519SigningKey::create_from(&[0x4b; 32])
}

fn clocks(c: &mut Ctx) {
    for n in &mut c.w.nodes {
        n.clock = c.now;
    }
}

fn setup(c: &mut Ctx) -> Result<(), String> {
    let seed = c.w.report.seed;
    let nb = if c.prop == "C07" { 4 } else { 3 };
    for i in 0..nb {
        let mut conf = dv::Configuration::default();
        conf.parallelism = 1;
        conf.max_object_size_in_kb = 2;
        let mut n = SimNode::new(i, &format!("n{i}"), (10 + i * 40) as u8, &c.w.root, &model_for(&c.prop), conf, T0, seed + i as u64);
        n.start()?;
        if c.cfg.answer_bytes > 0 {
            if let Some(db) = n.db.as_mut() {
                db.buffer_size = c.cfg.answer_bytes;
            }
            if let Some(sv) = n.services.as_mut() {
                sv.database.buffer_size = c.cfg.answer_bytes;
            }
        }
        c.w.nodes.push(n);
    }
    let (kh, kv, km) = (dv::base64_encode(&c.w.nodes[H].vk), dv::base64_encode(&c.w.nodes[V].vk), dv::base64_encode(&c.w.nodes[M].vk));
    // C07: a third group of which M is the user admin from the start (revoked below)
    let gua = if nb == 4 { format!(r#",{{ name:"ua" rights:[{{entity:"Pet" mutate_self:true mutate_all:false}}] user_admin:[{{verif_key:"{}"}}] }}"#, dv::base64_encode(&c.w.nodes[M].vk)) } else { String::new() };
    // C07: a second admin K (a key the harness holds, no instance) from the creation of the room, disabled below
    let kk = if nb == 4 { format!(r#",{{verif_key:"{}"}}"#, dv::base64_encode(&dv::SigningKey::export_verifying_key(&former_admin_key()))) } else { String::new() };
    let kw = if nb == 4 { format!(r#",{{verif_key:"{}"}}"#, dv::base64_encode(&c.w.nodes[W].vk)) } else { String::new() };
    c.now += 100;
    clocks(c);
    // r1: H admin; group "full": H, V with every right; group "m": M with the own-rows right on Person only
    let q = format!(
        r#"mutate {{ sys.Room{{ admin:[{{verif_key:"{kh}"}}{kk}] authorisations:[{{ name:"full" rights:[{{entity:"*" mutate_self:true mutate_all:true}}] users:[{{verif_key:"{kh}"}},{{verif_key:"{kv}"}}{kw}] }},{{ name:"m" rights:[{{entity:"Person" mutate_self:true mutate_all:false}}] }}{gua}] }} }}"#
    );
    let r = c.w.nodes[H].mutate(&q, None)?;
    let _ = c.w.nodes[H].drain_events();
    let v: serde_json::Value = serde_json::from_str(&r).map_err(|e| e.to_string())?;
    let id = v["sys.Room"]["id"].as_str().ok_or("no id")?.to_string();
    c.r1 = (dv::uid_decode(&id).map_err(|e| e.to_string())?, id.clone());
    c.g_full = v["sys.Room"]["authorisations"][0]["id"].as_str().unwrap_or("").to_string();
    c.g_m = v["sys.Room"]["authorisations"][1]["id"].as_str().unwrap_or("").to_string();
    let g_ua = v["sys.Room"]["authorisations"][2]["id"].as_str().unwrap_or("").to_string();
    // M becomes a user of group "m" one hour later (rows dated before are not covered)
    c.now += 3_600_000;
    clocks(c);
    let q = format!(r#"mutate {{ sys.Room{{ id:"{id}" authorisations:[{{ id:"{}" users:[{{verif_key:"{km}"}}] }}] }} }}"#, c.g_m);
    c.w.nodes[H].mutate(&q, None)?;
    let _ = c.w.nodes[H].drain_events();
    c.m_enabled_from = c.now;
    if nb == 4 {
        // W is made an admin, then disabled as an admin one hour later (an entry a stale or hostile sender may omit)
        let kw = dv::base64_encode(&c.w.nodes[W].vk);
        c.now += 1000;
        clocks(c);
        let q = format!(r#"mutate {{ sys.Room{{ id:"{id}" admin:[{{verif_key:"{kw}"}}] }} }}"#);
        c.w.nodes[H].mutate(&q, None)?;
    let _ = c.w.nodes[H].drain_events();
        c.now += 3_600_000;
        clocks(c);
        let q = format!(r#"mutate {{ sys.Room{{ id:"{id}" admin:[{{verif_key:"{kw}" enabled:false}}] }} }}"#);
        c.w.nodes[H].mutate(&q, None)?;
        let _ = c.w.nodes[H].drain_events();
        // K stops being an admin
        c.now += 1000;
        clocks(c);
        let kkey = dv::base64_encode(&dv::SigningKey::export_verifying_key(&former_admin_key()));
        let q = format!(r#"mutate {{ sys.Room{{ id:"{id}" admin:[{{verif_key:"{kkey}" enabled:false}}] }} }}"#);
        c.w.nodes[H].mutate(&q, None)?;
        let _ = c.w.nodes[H].drain_events();
        // and M stops being the user admin of the third group
        c.now += 1000;
        clocks(c);
        let q = format!(r#"mutate {{ sys.Room{{ id:"{id}" authorisations:[{{ id:"{g_ua}" user_admin:[{{verif_key:"{km}" enabled:false}}] }}] }} }}"#);
        c.w.nodes[H].mutate(&q, None)?;
    let _ = c.w.nodes[H].drain_events();
    }
    // r2: H and V only
    c.now += 100;
    clocks(c);
    let q = format!(
        r#"mutate {{ sys.Room{{ admin:[{{verif_key:"{kh}"}}] authorisations:[{{ name:"full" rights:[{{entity:"*" mutate_self:true mutate_all:true}}] users:[{{verif_key:"{kh}"}},{{verif_key:"{kv}"}}] }}] }} }}"#
    );
    let r = c.w.nodes[H].mutate(&q, None)?;
    let _ = c.w.nodes[H].drain_events();
    let v: serde_json::Value = serde_json::from_str(&r).map_err(|e| e.to_string())?;
    let id2 = v["sys.Room"]["id"].as_str().ok_or("no id")?.to_string();
    c.r2 = (dv::uid_decode(&id2).map_err(|e| e.to_string())?, id2);
    // r3: H and V only; V holds its rows
    c.now += 100;
    clocks(c);
    let r = c.w.nodes[H].mutate(&q, None)?;
    let _ = c.w.nodes[H].drain_events();
    let v: serde_json::Value = serde_json::from_str(&r).map_err(|e| e.to_string())?;
    let id3 = v["sys.Room"]["id"].as_str().ok_or("no id")?.to_string();
    c.r3 = (dv::uid_decode(&id3).map_err(|e| e.to_string())?, id3);
    c.now += 1000;
    clocks(c);
    for i in 0..2 {
        let p = serde_json::json!({"r": c.r3.1, "n": format!("r3 person {i}"), "c": format!("r3 parent {i}")}).to_string();
        c.w.nodes[H].mutate("mutate { Person{ room_id:$r name:$n parents:[{name:$c}] } }", Some(&p))?;
    }
    // r4: H, V and M with every right
    c.now += 100;
    clocks(c);
    let q4 = format!(
        r#"mutate {{ sys.Room{{ admin:[{{verif_key:"{kh}"}}] authorisations:[{{ name:"full" rights:[{{entity:"*" mutate_self:true mutate_all:true}}] users:[{{verif_key:"{kh}"}},{{verif_key:"{kv}"}},{{verif_key:"{km}"}}] }}] }} }}"#
    );
    let r = c.w.nodes[H].mutate(&q4, None)?;
    let _ = c.w.nodes[H].drain_events();
    let v: serde_json::Value = serde_json::from_str(&r).map_err(|e| e.to_string())?;
    let id4 = v["sys.Room"]["id"].as_str().ok_or("no id")?.to_string();
    c.r4 = (dv::uid_decode(&id4).map_err(|e| e.to_string())?, id4);
    c.now += 1000;
    clocks(c);
    let p = serde_json::json!({"r": c.r4.1, "n": "r4 person", "c": "r4 parent"}).to_string();
    c.w.nodes[H].mutate("mutate { Person{ room_id:$r name:$n parents:[{name:$c}] } }", Some(&p))?;
    let _ = c.w.nodes[H].drain_events();
    // rows in r2 (V never pulls r2 in this engine: they are "rows of another room" for it)
    for i in 0..2 {
        let p = serde_json::json!({"r": c.r2.1, "n": format!("r2 person {i}"), "c": format!("r2 parent {i}")}).to_string();
        c.w.nodes[H].mutate("mutate { Person{ room_id:$r name:$n parents:[{name:$c}] } }", Some(&p))?;
    }
    // rows in r1, including an E10 row with a reference (label "32") for the splice operator
    let p = serde_json::json!({"r": c.r1.1, "n": "r1 alice", "c": "r1 bob"}).to_string();
    c.w.nodes[H].mutate("mutate { Person{ room_id:$r name:$n parents:[{name:$c}] } }", Some(&p))?;
    let p = serde_json::json!({"r": c.r1.1, "n": "r1 rex"}).to_string();
    c.w.nodes[H].mutate("mutate { E10{ room_id:$r refs:[{name:$n}] } }", Some(&p))?;
    let _ = c.w.nodes[H].drain_events();
    // V and M learn r1 (M is served like a member: it keeps every row it has seen)
    for (who, uid) in [(V, c.r1.0), (M, c.r1.0), (V, c.r3.0), (V, c.r4.0)] {
        let (p, s) = c.w.two(who, H);
        let (end, mut sess) = crate::net::pull(p, s, uid, None).map_err(|e| format!("{e:?}"))?;
        sess.abandon();
        if end != SessionEnd::Ok {
            return Err(format!("setup pull: {end:?}"));
        }
        let _ = c.w.nodes[who].drain_events();
    }
    // what V holds of its own (private room, its peer rows) is accounted for
    for l in oracle::dump_all(&c.w.nodes[V].oracle_conn()?)? {
        c.reported.insert(l);
    }
    Ok(())
}

/// what the man in the middle injects into the answers of one session
#[derive(Default)]
struct Inject {
    nodes: Vec<dv::Node>,
    edges: Vec<dv::Edge>,
    node_dels: Vec<dv::NodeDeletionEntry>,
    edge_dels: Vec<dv::EdgeDeletionEntry>,
    done_edels: bool,
    /// (id of an honest row, replacement) : the honest row is replaced in the Nodes answer
    tamper: Option<(Uid, dv::Node)>,
    /// rewrite every reference with src_entity "11" / label "32" into ("1","132")
    splice: bool,
    room_node: Option<dv::RoomNode>,
    done_ids: bool,
    done_nodes: bool,
    done_edges: bool,
    done_dels: bool,
    fired: Vec<&'static str>,
}

fn append<T: serde::Serialize + serde::de::DeserializeOwned>(answers: &mut Vec<Answer>, items: Vec<T>) {
    if items.is_empty() || answers.is_empty() {
        return;
    }
    let id = answers[0].id;
    // first data answer, else a new one before the closing answer
    if let Some(a) = answers.iter_mut().find(|a| a.success && !a.complete) {
        if let Ok(mut v) = bincode::deserialize::<Vec<T>>(&a.serialized) {
            v.extend(items);
            a.serialized = bincode::serialize(&v).unwrap_or_default();
            return;
        }
    }
    answers.insert(0, Answer { id, success: true, complete: false, serialized: bincode::serialize(&items).unwrap_or_default() });
}

fn mitm(inj: Rc<RefCell<Inject>>) -> Box<dyn FnMut(&'static str, Vec<Answer>) -> Vec<Answer>> {
    Box::new(move |kind, mut answers| {
        let mut inj = inj.borrow_mut();
        match kind {
            "RoomDefinition" => {
                if inj.room_node.is_some() {
                    for a in answers.iter_mut().filter(|a| a.success) {
                        if let Ok(Some(mut d)) = bincode::deserialize::<Option<dv::RoomDefinitionLog>>(&a.serialized) {
                            d.room_def_date += 10 * DAY_MS;
                            a.serialized = bincode::serialize(&Some(d)).unwrap_or_default();
                            inj.fired.push("room-def-date-bumped");
                        }
                    }
                }
            }
            "RoomNode" => {
                if let Some(rn) = inj.room_node.clone() {
                    for a in answers.iter_mut().filter(|a| a.success) {
                        a.serialized = bincode::serialize(&Some(rn.clone())).unwrap_or_default();
                        inj.fired.push("room-node-replaced");
                    }
                }
            }
            "RoomDailyNodes" => {
                if !inj.done_ids && (!inj.nodes.is_empty() || inj.tamper.is_some()) {
                    let ids: Vec<dv::NodeIdentifier> = inj.nodes.iter().map(|n| dv::NodeIdentifier { id: n.id, mdate: n.mdate, signature: n._signature.clone() }).collect();
                    let id = answers.first().map(|a| a.id).unwrap_or(0);
                    let mut merged = false;
                    if let Some(a) = answers.iter_mut().find(|a| a.success && !a.complete) {
                        if let Ok(mut set) = bincode::deserialize::<HashSet<dv::NodeIdentifier>>(&a.serialized) {
                            for i in ids.iter() {
                                set.replace(dv::NodeIdentifier { id: i.id, mdate: i.mdate, signature: i.signature.clone() });
                            }
                            a.serialized = bincode::serialize(&set).unwrap_or_default();
                            merged = true;
                        }
                    }
                    if !merged {
                        let set: HashSet<dv::NodeIdentifier> = ids.into_iter().collect();
                        answers.insert(0, Answer { id, success: true, complete: false, serialized: bincode::serialize(&set).unwrap_or_default() });
                    }
                    inj.done_ids = true;
                    inj.fired.push("ids-announced");
                }
            }
            "Nodes" => {
                if let Some((tid, repl)) = inj.tamper.clone() {
                    for a in answers.iter_mut().filter(|a| a.success && !a.complete) {
                        if let Ok(mut v) = bincode::deserialize::<Vec<dv::Node>>(&a.serialized) {
                            for n in v.iter_mut() {
                                if n.id == tid {
                                    *n = repl.clone();
                                    inj.fired.push("row-tampered");
                                }
                            }
                            a.serialized = bincode::serialize(&v).unwrap_or_default();
                        }
                    }
                }
                if !inj.done_nodes && !inj.nodes.is_empty() {
                    let nodes = inj.nodes.clone();
                    append(&mut answers, nodes);
                    inj.done_nodes = true;
                    inj.fired.push("rows-injected");
                }
            }
            "Edges" => {
                if inj.splice {
                    for a in answers.iter_mut().filter(|a| a.success && !a.complete) {
                        if let Ok(mut v) = bincode::deserialize::<Vec<dv::Edge>>(&a.serialized) {
                            for e in v.iter_mut() {
                                if e.src_entity == "11" && e.label == "32" {
                                    e.src_entity = "1".into();
                                    e.label = "132".into();
                                    inj.fired.push("reference-spliced");
                                }
                            }
                            a.serialized = bincode::serialize(&v).unwrap_or_default();
                        }
                    }
                }
                if !inj.done_edges && !inj.edges.is_empty() {
                    let edges = inj.edges.clone();
                    append(&mut answers, edges);
                    inj.done_edges = true;
                    inj.fired.push("references-injected");
                }
            }
            "EdgeDeletionLog" => {
                if !inj.done_edels && !inj.edge_dels.is_empty() {
                    let dels: Vec<dv::EdgeDeletionEntry> = inj.edge_dels.drain(..).collect();
                    append(&mut answers, dels);
                    inj.done_edels = true;
                    inj.fired.push("reference-deletions-injected");
                }
            }
            "NodeDeletionLog" => {
                if !inj.done_dels && !inj.node_dels.is_empty() {
                    let dels: Vec<dv::NodeDeletionEntry> = inj.node_dels.drain(..).collect();
                    append(&mut answers, dels);
                    inj.done_dels = true;
                    inj.fired.push("deletions-injected");
                }
            }
            _ => {}
        }
        answers
    })
}

fn run_session(c: &mut Ctx, inj: Option<Rc<RefCell<Inject>>>) -> Result<SessionEnd, String> {
    run_session_of(c, V, inj)
}

fn run_session_of(c: &mut Ctx, victim: usize, inj: Option<Rc<RefCell<Inject>>>) -> Result<SessionEnd, String> {
    let uid = c.session_room.take().unwrap_or(c.r1.0);
    let (p, s) = c.w.two(victim, H);
    let mut sess = Session::open(p, s, uid);
    if let Some(i) = inj {
        sess.mitm = Some(mitm(i));
    }
    sess.pump_puller(p).map_err(|e| format!("{e:?}"))?;
    let mut guard = 0;
    loop {
        guard += 1;
        if guard > 20000 || sess.finished() {
            break;
        }
        let (p, s) = c.w.two(victim, H);
        if sess.deliver_answer(p).map_err(|e| format!("{e:?}"))? {
            continue;
        }
        if sess.deliver_query(s).map_err(|e| format!("{e:?}"))? {
            continue;
        }
        p.settle().map_err(|e| format!("{e:?}"))?;
        sess.pump_puller(p).map_err(|e| format!("{e:?}"))?;
        if sess.pending_answers.is_empty() && sess.pending_queries.is_empty() && !sess.finished() {
            sess.abandon();
            return Err("session stuck".into());
        }
    }
    let end = sess.result(&mut c.w.nodes[victim]).unwrap_or(SessionEnd::Err("no result".into()));
    c.w.log.log(format!("session end={end:?} trace={}", sess.trace.join(" ")));
    sess.abandon();
    let _ = c.w.nodes[victim].drain_events();
    Ok(end)
}

/// a template honest row of an entity as stored on H (storage names come from it)
fn template(c: &Ctx, room: &Uid, entity: &str) -> Result<oracle::NodeRow, String> {
    let d = oracle::dump_room(&c.w.nodes[H].oracle_conn()?, room)?;
    d.nodes.into_iter().find(|n| n.entity == entity).ok_or(format!("no template row for entity {entity}"))
}

fn to_node(r: &oracle::NodeRow) -> dv::Node {
    let mut id = [0u8; 16];
    id.copy_from_slice(&r.id);
    let room = r.room.as_ref().map(|x| {
        let mut u = [0u8; 16];
        u.copy_from_slice(x);
        u
    });
    dv::Node { id, room_id: room, cdate: r.cdate, mdate: r.mdate, _entity: r.entity.clone(), _json: r.json.clone(), _binary: r.binary.clone(), verifying_key: r.author.clone(), _signature: r.signature.clone(), _local_id: None }
}

fn new_row(c: &mut Ctx, entity: &str, json: String, date: i64, room: Uid) -> dv::Node {
    c.counter += 1;
    let mut id = dv::new_uid();
    id[15] = c.counter as u8;
    dv::Node { id, room_id: Some(room), cdate: date, mdate: date, _entity: entity.to_string(), _json: Some(json), _binary: None, verifying_key: vec![], _signature: vec![], _local_id: None }
}

fn present_anywhere(c: &Ctx, node: usize, id: &Uid) -> Result<Vec<String>, String> {
    let conn = c.w.nodes[node].oracle_conn()?;
    let mut found = vec![];
    for (t, q) in [
        ("_node", "SELECT count(*) FROM _node WHERE id = ?1"),
        ("_edge(src)", "SELECT count(*) FROM _edge WHERE src = ?1"),
        ("_edge(dest)", "SELECT count(*) FROM _edge WHERE dest = ?1"),
        ("_node_deletion_log", "SELECT count(*) FROM _node_deletion_log WHERE id = ?1"),
    ] {
        let n: i64 = conn.query_row(q, [id.as_slice()], |r| r.get(0)).map_err(|e| e.to_string())?;
        if n > 0 {
            found.push(t.to_string());
        }
    }
    Ok(found)
}

fn grid(c: &mut Ctx, node: usize, room: Uid) -> Result<Vec<(String, bool)>, String> {
    let keys: Vec<Vec<u8>> = (0..c.w.nodes.len()).map(|k| c.w.nodes[k].vk.clone()).collect();
    let auth = c.w.nodes[node].dbh().auth.clone();
    let r = c.w.nodes[node]
        .run(async move {
            let (tx, rx) = tokio::sync::oneshot::channel();
            let _ = auth.send(dv::AuthorisationMessage::VerifGetRoom(room, tx)).await;
            rx.await.ok().flatten()
        })
        .map_err(|e| format!("{e:?}"))?;
    let Some(r) = r else { return Ok(vec![("room known".into(), false)]) };
    let mut out = vec![("room known".to_string(), true)];
    let dates = [T0, c.m_enabled_from - 1, c.m_enabled_from + 1, c.now, c.now + 30 * DAY_MS];
    for (k, key) in keys.iter().enumerate() {
        for d in dates {
            out.push((format!("admin(n{k},{d})"), r.is_admin(key, d)));
            out.push((format!("member(n{k},{d})"), r.is_user_valid_at(key, d)));
            for e in ["Person", "Pet", "E10", "Unknown"] {
                out.push((format!("own({k},{e},{d})"), r.can(key, e, d, &RightType::MutateSelf)));
                out.push((format!("all({k},{e},{d})"), r.can(key, e, d, &RightType::MutateAll)));
            }
        }
    }
    Ok(out)
}

fn room_entries(c: &Ctx, node: usize, room: &Uid) -> Result<Vec<String>, String> {
    let conn = c.w.nodes[node].oracle_conn()?;
    let rn = dv::RoomNode::read(&conn, room).map_err(|e| e.to_string())?;
    let mut v = vec![];
    if let Some(rn) = rn {
        let nl = |tag: &str, n: &dv::Node| format!("{tag} node {} m={} j={} s={}", crate::kit::short(&n.id), n.mdate, n._json.clone().unwrap_or_default(), crate::kit::short(&n._signature));
        let el = |tag: &str, e: &dv::Edge| format!("{tag} edge {}-{}->{} c={} s={}", crate::kit::short(&e.src), e.label, crate::kit::short(&e.dest), e.cdate, crate::kit::short(&e.signature));
        for e in &rn.admin_edges {
            v.push(el("admin", e));
        }
        for n in &rn.admin_nodes {
            v.push(nl("admin", &n.node));
        }
        for e in &rn.auth_edges {
            v.push(el("auth", e));
        }
        for a in &rn.auth_nodes {
            let g = crate::kit::short(&a.node.id);
            for e in &a.right_edges {
                v.push(el(&format!("{g} right"), e));
            }
            for n in &a.right_nodes {
                v.push(nl(&format!("{g} right"), &n.node));
            }
            for e in &a.user_edges {
                v.push(el(&format!("{g} user"), e));
            }
            for n in &a.user_nodes {
                v.push(nl(&format!("{g} user"), &n.node));
            }
            for e in &a.user_admin_edges {
                v.push(el(&format!("{g} uadmin"), e));
            }
            for n in &a.user_admin_nodes {
                v.push(nl(&format!("{g} uadmin"), &n.node));
            }
        }
    }
    v.sort();
    Ok(v)
}

fn exec_step(c: &mut Ctx, st: &Step) -> Result<(), String> {
    match st {
        Step::HonestWrite { dt } => {
            c.now += dt.max(&1000);
            clocks(c);
            c.counter += 1;
            let p = serde_json::json!({"r": c.r1.1, "n": format!("honest person {}", c.counter), "c": format!("honest parent {}", c.counter)}).to_string();
            c.w.nodes[H].mutate("mutate { Person{ room_id:$r name:$n parents:[{name:$c}] } }", Some(&p))?;
            let p = serde_json::json!({"r": c.r1.1, "n": format!("honest pet {}", c.counter)}).to_string();
            c.w.nodes[H].mutate("mutate { Pet{ room_id:$r name:$n } }", Some(&p))?;
            let p = serde_json::json!({"r": c.r1.1, "n": format!("honest ref {}", c.counter)}).to_string();
            c.w.nodes[H].mutate("mutate { E10{ room_id:$r refs:[{name:$n}] } }", Some(&p))?;
            if c.prop == "C06" {
                c.w.nodes[H].mutate("mutate { E11{ room_id:$r refs:[{name:$n}] } }", Some(&p))?;
            }
            let _ = c.w.nodes[H].drain_events();
            c.w.log.sched("honest-write");
        }
        Step::HonestPull => {
            let end = run_session(c, None)?;
            c.w.log.sched(format!("honest-pull {}", matches!(end, SessionEnd::Ok)));
        }
        Step::DisableM => {
            if c.m_disabled_from.is_some() {
                return Ok(());
            }
            c.now += 3_600_000;
            clocks(c);
            let km = dv::base64_encode(&c.w.nodes[M].vk);
            let q = format!(r#"mutate {{ sys.Room{{ id:"{}" authorisations:[{{ id:"{}" users:[{{verif_key:"{km}" enabled:false}}] }}] }} }}"#, c.r1.1, c.g_m);
            c.w.nodes[H].mutate(&q, None)?;
            c.m_disabled_from = Some(c.now);
            let _ = c.w.nodes[H].drain_events();
            c.w.log.sched("disable-m");
        }
        Step::AttackNew { op } => {
            if c.prop == "C07" && c.w.nodes.len() > W && !c.fresh_used && FRESH_OPS_C07.contains(&(*op % OPS_C07.len())) {
                c.fresh_used = true;
                c.any = true;
                attack_c07_new(c, OPS_C07[*op % OPS_C07.len()])?;
            }
        }
        Step::Attack { op, alone: _ } => {
            c.any = true;
            let prop = c.prop.clone();
            match prop.as_str() {
                "C02" => attack_c02(c, OPS_C02[*op % OPS_C02.len()])?,
                "C06" => attack_c06(c, OPS_C06[*op % OPS_C06.len()])?,
                "C07" => attack_c07(c, OPS_C07[*op % OPS_C07.len()])?,
                _ => {}
            }
        }
    }
    Ok(())
}

fn viol02(c: &mut Ctx, fp: &str, detail: String) {
    c.flagged += 1;
    c.w.violation("C02", fp, detail);
}

fn attack_c02(c: &mut Ctx, op: &'static str) -> Result<(), String> {
    let nviol = c.flagged;
    let mkey = c.w.nodes[M].signing_key();
    let person = template(c, &c.r1.0.clone(), "0")?;
    let pet = template(c, &c.r1.0.clone(), "1")?;
    let r1 = c.r1.0;
    let mut inj = Inject::default();
    // (what, id, legitimate)
    let mut crafted: Vec<(Uid, bool)> = vec![];
    let mut keep_version: Option<(Uid, Vec<u8>)> = None;
    let mut forged_edges: Vec<(Uid, Uid)> = vec![];
    let mut kept_edges: Vec<(Uid, String, Uid)> = vec![];
    let m_active = c.m_disabled_from.is_none();
    let day = c.now;
    match op {
        "row-of-another-room" => {
            let d2 = oracle::dump_room(&c.w.nodes[H].oracle_conn()?, &c.r2.0)?;
            let row = d2.nodes.iter().find(|n| n.entity == "0").ok_or("no r2 row")?;
            let n = to_node(row);
            crafted.push((n.id, false));
            inj.nodes.push(n);
        }
        "author-without-right-on-entity" => {
            let mut n = new_row(c, "1", pet.json.clone().unwrap_or_default(), day, r1);
            n.sign(&mkey).map_err(|e| e.to_string())?;
            crafted.push((n.id, false));
            inj.nodes.push(n);
        }
        "row-dated-before-author-was-enabled" => {
            let mut n = new_row(c, "0", person.json.clone().unwrap_or_default(), c.m_enabled_from - 60_000, r1);
            n.sign(&mkey).map_err(|e| e.to_string())?;
            crafted.push((n.id, false));
            inj.nodes.push(n);
        }
        "row-dated-after-author-was-disabled" => {
            let Some(d) = c.m_disabled_from else { return Ok(()) };
            let mut n = new_row(c, "0", person.json.clone().unwrap_or_default(), d + 60_000, r1);
            n.sign(&mkey).map_err(|e| e.to_string())?;
            crafted.push((n.id, false));
            inj.nodes.push(n);
        }
        "foreign-row-replaced-with-own-rows-right-only" => {
            // a row V already stores, authored by H: M writes a newer version signed with its own key
            let dv_ = oracle::dump_room(&c.w.nodes[V].oracle_conn()?, &r1)?;
            let Some(row) = dv_.nodes.iter().find(|n| n.entity == "0" && n.author == c.w.nodes[H].vk) else { return Ok(()) };
            let mut n = to_node(row);
            n.mdate = day;
            n._json = person.json.clone();
            n.sign(&mkey).map_err(|e| e.to_string())?;
            keep_version = Some((n.id, row.signature.clone()));
            inj.nodes.push(n);
        }
        "tampered-fields-original-signature" => {
            // the newest honest Person row of H (not yet on V): same signature, other content
            let dh = oracle::dump_room(&c.w.nodes[H].oracle_conn()?, &r1)?;
            let dvv = oracle::dump_room(&c.w.nodes[V].oracle_conn()?, &r1)?;
            let Some(row) = dh.nodes.iter().filter(|n| n.entity == "1").find(|n| !dvv.nodes.iter().any(|x| x.id == n.id)) else { return Ok(()) };
            let mut n = to_node(row);
            n._json = n._json.map(|j| j.replace("honest", "forged"));
            crafted.push((n.id, false));
            inj.tamper = Some((n.id, n));
        }
        "oversized-row" => {
            let big = "x".repeat(5000);
            let json = person.json.clone().unwrap_or_default().replacen("r1 alice", &big, 1).replacen("honest", &big, 1);
            let json = if json.len() < 4000 { format!("{{\"32\":\"{big}\"}}") } else { json };
            let mut n = new_row(c, "0", json, day, r1);
            n.sign(&mkey).map_err(|e| e.to_string())?;
            crafted.push((n.id, !m_active && false));
            inj.nodes.push(n);
        }
        "model-violating-json" => {
            let mut n = new_row(c, "0", "{\"32\":12345}".to_string(), day, r1);
            n.sign(&mkey).map_err(|e| e.to_string())?;
            crafted.push((n.id, false));
            inj.nodes.push(n);
        }
        "unknown-entity" => {
            let mut n = new_row(c, "99", "{\"32\":\"x\"}".to_string(), day, r1);
            n.sign(&mkey).map_err(|e| e.to_string())?;
            crafted.push((n.id, false));
            inj.nodes.push(n);
        }
        "reference-whose-source-row-is-in-another-room" | "reference-whose-source-row-is-not-stored" | "reference-on-foreign-row-with-own-rows-right-only" => {
            // source row: a row of r3 that V stores / a row of r2 that V does not store / H's row of r1
            let (holder, room) = match op {
                "reference-whose-source-row-is-in-another-room" => (V, c.r3.0),
                "reference-whose-source-row-is-not-stored" => (H, c.r2.0),
                _ => (V, r1),
            };
            let d2 = oracle::dump_room(&c.w.nodes[holder].oracle_conn()?, &room)?;
            let hvk = c.w.nodes[H].vk.clone();
            let Some(row) = d2.nodes.iter().find(|n| n.entity == "0" && n.author == hvk) else { return Ok(()) };
            let mut src = [0u8; 16];
            src.copy_from_slice(&row.id);
            let mut dest = [0u8; 16];
            dest.copy_from_slice(&person.id);
            if dest == src {
                return Ok(());
            }
            let mut e = dv::Edge { src, src_entity: "0".into(), label: "33".into(), dest, cdate: day, verifying_key: vec![], signature: vec![] };
            e.sign(&mkey).map_err(|e| e.to_string())?;
            forged_edges.push((src, dest));
            inj.edges.push(e);
            // the reference answer is only requested when a row of the day is new: a legitimate row of M opens the way
            if m_active {
                let mut n = new_row(c, "0", person.json.clone().unwrap_or_default(), day, r1);
                n.sign(&mkey).map_err(|e| e.to_string())?;
                crafted.push((n.id, true));
                inj.nodes.push(n);
            }
        }
        "row-moved-from-a-room-without-right-into-a-room-with-every-right" => {
            // a row of r3 that V holds (M has no right in r3), re-signed by M as a newer version living in r4, where M has
            // every right; served while V pulls r4, in which H has just written something on a new day
            let d3 = oracle::dump_room(&c.w.nodes[V].oracle_conn()?, &c.r3.0)?;
            let Some(row) = d3.nodes.iter().find(|n| n.entity == "0") else { return Ok(()) };
            let p = serde_json::json!({"r": c.r4.1, "n": format!("r4 news {}", c.counter)}).to_string();
            c.w.nodes[H].mutate("mutate { Person{ room_id:$r name:$n } }", Some(&p))?;
            let _ = c.w.nodes[H].drain_events();
            let mut n = to_node(row);
            n.room_id = Some(c.r4.0);
            n.mdate = day;
            n._json = person.json.clone();
            n.sign(&mkey).map_err(|e| e.to_string())?;
            keep_version = Some((n.id, row.signature.clone()));
            inj.nodes.push(n);
            c.session_room = Some(c.r4.0);
        }
        "reference-deletion-on-foreign-row-with-own-rows-right-only" | "reference-deletion-naming-a-room-where-the-author-has-every-right" => {
            // a reference H wrote, on a row H wrote, that V stores: in r1 (M: own-rows right only) / in r3 (M: no right,
            // the record names r4 where M has every right and is served while V pulls r4)
            let other_room = op.ends_with("every-right");
            let room = if other_room { c.r3.0 } else { r1 };
            let dvv = oracle::dump_room(&c.w.nodes[V].oracle_conn()?, &room)?;
            let hvk = c.w.nodes[H].vk.clone();
            let Some(e) = dvv.edges.iter().find(|e| e.author == hvk && e.src_entity == "0") else { return Ok(()) };
            let (mut src, mut dest) = ([0u8; 16], [0u8; 16]);
            src.copy_from_slice(&e.src);
            dest.copy_from_slice(&e.dest);
            let edge = dv::Edge { src, src_entity: e.src_entity.clone(), label: e.label.clone(), dest, cdate: e.cdate, verifying_key: e.author.clone(), signature: e.signature.clone() };
            let named = if other_room { c.r4.0 } else { r1 };
            let del = dv::EdgeDeletionEntry::build(named, &edge, day, &mkey);
            kept_edges.push((src, e.label.clone(), dest));
            inj.edge_dels.push(del);
            if other_room {
                let p = serde_json::json!({"r": c.r4.1, "n": format!("r4 news {}", c.counter)}).to_string();
                c.w.nodes[H].mutate("mutate { Person{ room_id:$r name:$n } }", Some(&p))?;
                let _ = c.w.nodes[H].drain_events();
                c.session_room = Some(c.r4.0);
            }
        }
        "deletion-of-own-row-dated-after-author-was-disabled" => {
            // a row M wrote while it had the right, stored by V; M, disabled since, signs its deletion dated now
            let Some(d) = c.m_disabled_from else { return Ok(()) };
            if day <= d {
                return Ok(());
            }
            let dvv = oracle::dump_room(&c.w.nodes[V].oracle_conn()?, &r1)?;
            let mvk = c.w.nodes[M].vk.clone();
            let Some(row) = dvv.nodes.iter().find(|n| n.author == mvk && n.mdate < d) else { return Ok(()) };
            let node = to_node(row);
            let del = dv::NodeDeletionEntry::build(r1, &node, day, &mkey);
            keep_version = Some((node.id, row.signature.clone()));
            inj.node_dels.push(del);
        }
        "row-deletion-naming-a-room-where-the-author-has-every-right" => {
            let d3 = oracle::dump_room(&c.w.nodes[V].oracle_conn()?, &c.r3.0)?;
            let Some(row) = d3.nodes.iter().find(|n| n.entity == "0") else { return Ok(()) };
            let node = to_node(row);
            let del = dv::NodeDeletionEntry::build(c.r4.0, &node, day, &mkey);
            keep_version = Some((node.id, row.signature.clone()));
            inj.node_dels.push(del);
            let p = serde_json::json!({"r": c.r4.1, "n": format!("r4 news {}", c.counter)}).to_string();
            c.w.nodes[H].mutate("mutate { Person{ room_id:$r name:$n } }", Some(&p))?;
            let _ = c.w.nodes[H].drain_events();
            c.session_room = Some(c.r4.0);
        }
        "reference-with-a-label-that-is-not-a-field" => {
            if !m_active {
                return Ok(());
            }
            // a legitimate row of M, with a reference M signs under a label the entity does not have
            let mut n = new_row(c, "0", person.json.clone().unwrap_or_default(), day, r1);
            n.sign(&mkey).map_err(|e| e.to_string())?;
            let mut dest = [0u8; 16];
            dest.copy_from_slice(&person.id);
            let mut e = dv::Edge { src: n.id, src_entity: "0".into(), label: "99".into(), dest, cdate: day, verifying_key: vec![], signature: vec![] };
            e.sign(&mkey).map_err(|e| e.to_string())?;
            forged_edges.push((n.id, dest));
            crafted.push((n.id, true));
            inj.edges.push(e);
            inj.nodes.push(n);
        }
        "deletion-of-foreign-row-with-own-rows-right-only" => {
            let dvv = oracle::dump_room(&c.w.nodes[V].oracle_conn()?, &r1)?;
            let Some(row) = dvv.nodes.iter().find(|n| n.entity == "0" && n.author == c.w.nodes[H].vk) else { return Ok(()) };
            let node = to_node(row);
            let del = dv::NodeDeletionEntry::build(r1, &node, day, &mkey);
            keep_version = Some((node.id, row.signature.clone()));
            inj.node_dels.push(del);
        }
        "legitimate-row-of-the-adversary" => {
            let mut n = new_row(c, "0", person.json.clone().unwrap_or_default(), day, r1);
            n.sign(&mkey).map_err(|e| e.to_string())?;
            crafted.push((n.id, m_active));
            inj.nodes.push(n);
        }
        "row-moved-from-a-room-without-right" => {
            // a row of r3 (where M has no right) re-signed by M as a row of r1
            // a row of r3 that V holds (M has no right in r3)
            let d3 = oracle::dump_room(&c.w.nodes[V].oracle_conn()?, &c.r3.0)?;
            let Some(row) = d3.nodes.iter().find(|n| n.entity == "0") else { return Ok(()) };
            let mut n = to_node(row);
            n.room_id = Some(r1);
            n.mdate = day;
            n.sign(&mkey).map_err(|e| e.to_string())?;
            keep_version = Some((n.id, row.signature.clone()));
            inj.nodes.push(n);
        }
        _ => {}
    }
    let dels_before: i64 = match &keep_version {
        Some((id, _)) => c.w.nodes[V].oracle_conn()?.query_row("SELECT count(*) FROM _node_deletion_log WHERE id = ?1", [id.as_slice()], |r| r.get(0)).map_err(|e| e.to_string())?,
        None => 0,
    };
    let mut before: Vec<Vec<String>> = vec![];
    for (id, legit) in &crafted {
        before.push(present_anywhere(c, V, id)?);
        if *legit {
            c.legit_ids.push(crate::kit::hex(id));
        }
    }
    let inj = Rc::new(RefCell::new(inj));
    let session_was_r1 = c.session_room.is_none();
    let end = run_session(c, Some(inj.clone()))?;
    let fired = inj.borrow().fired.clone();
    c.w.fault(&format!("byz_{op}"));
    c.w.log.sched(format!("attack {op} end={} fired={}", matches!(end, SessionEnd::Ok), fired.join(",")));
    if fired.is_empty() {
        c.w.probe("byz_operator_not_applied");
        return Ok(());
    }
    c.w.probe(&format!("applied_{op}"));
    // "what else is in the batch makes no difference": the honest rows served in the same session were stored
    if matches!(end, SessionEnd::Ok) && session_was_r1 {
        let dh = oracle::dump_room(&c.w.nodes[H].oracle_conn()?, &r1)?;
        let dvv = oracle::dump_room(&c.w.nodes[V].oracle_conn()?, &r1)?;
        let have: HashSet<Vec<u8>> = dvv.nodes.iter().map(|n| n.signature.clone()).collect();
        let tampered: Option<Uid> = inj.borrow().tamper.as_ref().map(|t| t.0);
        if let Some(n) = dh.nodes.iter().find(|n| !have.contains(&n.signature) && Some(n.id.as_slice()) != tampered.as_ref().map(|t| t.as_slice())) {
            viol02(c, &format!("honest-rows-of-the-same-batch-not-stored/{op}"), format!("the session ended normally but V did not store an honest row served together with the injected ones: {}", crate::kit::cut(&n.line(), 160)));
        }
    }
    for ((id, legit), before) in crafted.into_iter().zip(before.into_iter()) {
        let found: Vec<String> = present_anywhere(c, V, &id)?.into_iter().filter(|t| !before.contains(t)).collect();
        if !legit && !found.is_empty() {
            viol02(c, &format!("illegitimate-row-stored/{op}"), format!("V stored what the man in the middle injected ({op}): found in {found:?}"));
        }
        if legit && !found.contains(&"_node".to_string()) {
            c.w.probe("legit_adversary_row_not_stored");
        }
    }
    for (src, dest) in forged_edges {
        let conn = c.w.nodes[V].oracle_conn()?;
        let n: i64 = conn.query_row("SELECT count(*) FROM _edge WHERE src = ?1 AND dest = ?2 AND verifying_key = ?3", rusqlite::params![src.as_slice(), dest.as_slice(), c.w.nodes[M].vk], |r| r.get(0)).map_err(|e| e.to_string())?;
        if n > 0 {
            viol02(c, &format!("illegitimate-row-stored/{op}"), format!("V stored the reference the man in the middle signed ({op})"));
        }
    }
    for (src, label, dest) in kept_edges {
        let conn = c.w.nodes[V].oracle_conn()?;
        let n: i64 = conn.query_row("SELECT count(*) FROM _edge WHERE src = ?1 AND label = ?2 AND dest = ?3", rusqlite::params![src.as_slice(), label, dest.as_slice()], |r| r.get(0)).map_err(|e| e.to_string())?;
        if n == 0 {
            viol02(c, &format!("illegitimate-deletion-applied/{op}"), format!("V removed a reference H wrote on the word of a deletion record the adversary was not entitled to sign ({op})"));
        }
        let n: i64 = conn.query_row("SELECT count(*) FROM _edge_deletion_log WHERE src = ?1 AND label = ?2 AND dest = ?3", rusqlite::params![src.as_slice(), label, dest.as_slice()], |r| r.get(0)).map_err(|e| e.to_string())?;
        if n > 0 {
            viol02(c, &format!("rejected-row-left-trace/{op}"), "a reference deletion record signed without the needed right is stored on V".to_string());
        }
    }
    if let Some((id, sig)) = keep_version {
        let conn = c.w.nodes[V].oracle_conn()?;
        let cur: Option<Vec<u8>> = conn.query_row("SELECT _signature FROM _node WHERE id = ?1", [id.as_slice()], |r| r.get(0)).ok();
        if cur.as_ref() != Some(&sig) {
            viol02(c, &format!("illegitimate-row-stored/{op}"), format!("V's copy of H's row was {} by the man in the middle ({op})", if cur.is_none() { "removed" } else { "replaced" }));
        }
        let n: i64 = conn.query_row("SELECT count(*) FROM _node_deletion_log WHERE id = ?1", [id.as_slice()], |r| r.get(0)).map_err(|e| e.to_string())?;
        if n > dels_before {
            viol02(c, &format!("rejected-row-left-trace/{op}"), "a deletion record signed without the needed right is stored on V".to_string());
        }
    }
    let already = c.flagged > nviol;
    no_trace(c, op, already)
}

/// After an undisturbed pull, everything V stores must be something H stores or a row the adversary was entitled to
/// write, H's content of r1 must all be on V, and V's daily log must be the function of its content.
fn no_trace(c: &mut Ctx, op: &str, already: bool) -> Result<(), String> {
    let end = run_session(c, None)?;
    if end != SessionEnd::Ok {
        c.w.violation("C02", &format!("honest-pull-fails-afterwards/{op}"), format!("after the session with the man in the middle an undisturbed pull ends with {end:?}"));
        return Ok(());
    }
    let hl: HashSet<String> = oracle::dump_all(&c.w.nodes[H].oracle_conn()?)?.into_iter().collect();
    let vl = oracle::dump_all(&c.w.nodes[V].oracle_conn()?)?;
    for line in vl {
        if !(line.starts_with("N ") || line.starts_with("E ") || line.starts_with("ND ") || line.starts_with("ED ")) {
            continue;
        }
        if hl.contains(&line) || c.reported.contains(&line) {
            continue;
        }
        let low = line.to_lowercase();
        if c.legit_ids.iter().any(|id| low.contains(&id.to_lowercase())) {
            continue;
        }
        c.reported.insert(line.clone());
        if already {
            continue;
        }
        let kind = match line.split(' ').next().unwrap_or("") {
            "N" => "row",
            "E" => "reference",
            "ND" => "row-deletion-record",
            _ => "reference-deletion-record",
        };
        c.w.violation("C02", &format!("unexplained-{kind}-stored/{op}"), format!("V stores what neither H wrote nor the adversary was entitled to: {}", crate::kit::cut(&line, 160)));
    }
    let r1 = c.r1.0;
    let dh = oracle::dump_room(&c.w.nodes[H].oracle_conn()?, &r1)?;
    let dvv = oracle::dump_room(&c.w.nodes[V].oracle_conn()?, &r1)?;
    let vset: HashSet<String> = dvv.content_lines().into_iter().collect();
    if let Some(l) = dh.content_lines().into_iter().find(|l| !vset.contains(l) && !c.reported.contains(l)) {
        c.reported.insert(l.clone());
        c.w.violation("C02", &format!("honest-content-missing/{op}"), format!("after an undisturbed pull V still lacks: {}", crate::kit::cut(&l, 160)));
    }
    if c.w.nodes[V].compute_daily_log().is_ok() {
        let dvv = oracle::dump_room(&c.w.nodes[V].oracle_conn()?, &r1)?;
        for (k, d) in oracle::check_daily_against_dump(&dvv) {
            c.w.violation("C02", &format!("rejected-row-left-trace/daily-log-{k}"), format!("{d} (after {op})"));
        }
    }
    Ok(())
}

fn attack_c06(c: &mut Ctx, op: &'static str) -> Result<(), String> {
    let r1 = c.r1.0;
    let mut inj = Inject::default();
    let mut forged_node: Option<Uid> = None;
    let mut forged_edge: Option<(Uid, String)> = None;
    match op {
        "reference-splice-entity-label" => {
            inj.splice = true;
        }
        "row-splice-json-binary" | "row-splice-entity-json" => {
            // the adversary signs one row and presents another one made of the same bytes cut at another place:
            // the end of the JSON text moved into the binary field / the end of the entity name moved into the JSON text
            if c.m_disabled_from.is_some() {
                return Ok(());
            }
            let person = template(c, &r1, "0")?;
            let mkey = c.w.nodes[M].signing_key();
            let j = person.json.clone().unwrap_or_default();
            let (signed_json, signed_entity, shown_json, shown_entity, shown_binary): (String, String, String, String, Option<Vec<u8>>) = if op == "row-splice-json-binary" {
                (format!("{j} "), "0".into(), j.clone(), "0".into(), Some(b" ".to_vec()))
            } else {
                // entity "0" + json " {..}"  versus entity "0 " + json "{..}"
                (format!(" {j}"), "0".into(), j.clone(), "0 ".into(), None)
            };
            let mut a = new_row(c, &signed_entity, signed_json, c.now, r1);
            a.sign(&mkey).map_err(|e| e.to_string())?;
            let mut b = a.clone();
            b._entity = shown_entity;
            b._json = Some(shown_json);
            b._binary = shown_binary;
            forged_node = Some(b.id);
            inj.nodes.push(b);
            c.w.fault("row_recut_under_one_signature");
        }
        "signing-oracle-node" | "signing-oracle-reference" => {
            // M asks H to "prove its identity" on a challenge that is the digest of a row M invents in H's name
            let pet = template(c, &r1, "1")?;
            let hvk = c.w.nodes[H].vk.clone();
            let mut side = ServerSide::new(&c.w.nodes[H], HashSet::new(), c.w.nodes[M].vk.clone(), true);
            if op == "signing-oracle-node" {
                let mut n = new_row(c, "1", pet.json.clone().unwrap_or_default().replace("honest", "invented"), c.now, r1);
                n.verifying_key = hvk.clone();
                let digest = n.hash().map_err(|e| e.to_string())?.as_bytes().to_vec();
                let ans = side.serve(&mut c.w.nodes[H], dv::QueryProtocol { id: 1, query: SyncQuery::ProveIdentity(digest) }).map_err(|e| format!("{e:?}"))?;
                let Some(a) = ans.first() else { return Ok(()) };
                let ia: dv::IdentityAnswer = bincode::deserialize(&a.serialized).map_err(|e| e.to_string())?;
                n._signature = ia.chall_signature;
                forged_node = Some(n.id);
                inj.nodes.push(n);
            } else {
                // a reference in H's name between two honest rows
                let person = template(c, &r1, "0")?;
                let mut src = [0u8; 16];
                src.copy_from_slice(&person.id);
                let mut dest = [0u8; 16];
                dest.copy_from_slice(&pet.id);
                let mut e = dv::Edge { src, src_entity: "0".into(), label: "33".into(), dest, cdate: c.now, verifying_key: hvk.clone(), signature: vec![] };
                // the digest of a reference is recomputed here exactly as Edge::hash does
                let mut hasher = blake3::Hasher::new();
                hasher.update(&e.src);
                hasher.update(e.src_entity.as_bytes());
                hasher.update(e.label.as_bytes());
                hasher.update(&e.dest);
                hasher.update(&e.cdate.to_le_bytes());
                hasher.update(&e.verifying_key);
                let digest = hasher.finalize().as_bytes().to_vec();
                let ans = side.serve(&mut c.w.nodes[H], dv::QueryProtocol { id: 1, query: SyncQuery::ProveIdentity(digest) }).map_err(|e| format!("{e:?}"))?;
                let Some(a) = ans.first() else { return Ok(()) };
                let ia: dv::IdentityAnswer = bincode::deserialize(&a.serialized).map_err(|e| e.to_string())?;
                e.signature = ia.chall_signature;
                forged_edge = Some((src, "33".to_string()));
                inj.edges.push(e);
                // open the way to the reference answer with a legitimate row of M
                if c.m_disabled_from.is_none() {
                    let mkey = c.w.nodes[M].signing_key();
                    let mut n = new_row(c, "0", person.json.clone().unwrap_or_default(), c.now, r1);
                    n.sign(&mkey).map_err(|e| e.to_string())?;
                    inj.nodes.push(n);
                }
            }
            c.w.fault("signing_request_with_chosen_bytes");
        }
        _ => {}
    }
    let edges_before: Vec<String> = oracle::dump_room(&c.w.nodes[V].oracle_conn()?, &r1)?.edges.iter().map(|e| e.line()).collect();
    let inj = Rc::new(RefCell::new(inj));
    let end = run_session(c, Some(inj.clone()))?;
    let fired = inj.borrow().fired.clone();
    c.w.fault(&format!("byz_{op}"));
    c.w.log.sched(format!("attack {op} end={} fired={}", matches!(end, SessionEnd::Ok), fired.join(",")));
    if fired.is_empty() {
        c.w.probe("byz_operator_not_applied");
        return Ok(());
    }
    c.w.probe(&format!("applied_{op}"));
    let conn = c.w.nodes[V].oracle_conn()?;
    if op == "reference-splice-entity-label" {
        let n: i64 = conn.query_row("SELECT count(*) FROM _edge WHERE label = '132' AND src_entity = '1'", [], |r| r.get(0)).map_err(|e| e.to_string())?;
        if n > 0 {
            c.w.violation("C06", "forged-row-stored/reference-splice-entity-label", format!("V stored {n} reference(s) (source entity \"1\", label \"132\") carrying the signature H made for (source entity \"11\", label \"32\")"));
        }
        let _ = edges_before;
    }
    if let Some(id) = forged_node {
        let n: i64 = conn.query_row("SELECT count(*) FROM _node WHERE id = ?1", [id.as_slice()], |r| r.get(0)).map_err(|e| e.to_string())?;
        if n > 0 && op.starts_with("row-splice") {
            c.w.violation("C06", &format!("forged-row-stored/{op}"), "V stored a row that differs from the row its signature was made for (the same bytes cut at another field boundary)".to_string());
        } else if n > 0 {
            c.w.violation("C06", "signing-oracle-forgery/node", "V stored a row in H's name that H never wrote: its signature was obtained from H's answer to an identity challenge".to_string());
        }
    }
    if let Some((src, label)) = forged_edge {
        let hvk = c.w.nodes[H].vk.clone();
        let n: i64 = conn.query_row("SELECT count(*) FROM _edge WHERE src = ?1 AND label = ?2 AND verifying_key = ?3 AND cdate = ?4", rusqlite::params![src.as_slice(), label, hvk, c.now], |r| r.get(0)).map_err(|e| e.to_string())?;
        if n > 0 {
            c.w.violation("C06", "signing-oracle-forgery/reference", "V stored a reference in H's name that H never wrote: its signature was obtained from H's answer to an identity challenge".to_string());
        }
    }
    Ok(())
}

/// the definition of r1 as H stores it, rewritten by operator `op`
fn craft_definition(c: &mut Ctx, op: &'static str) -> Result<Option<dv::RoomNode>, String> {
    let r1 = c.r1.0;
    let mkey = c.w.nodes[M].signing_key();
    let mvk = c.w.nodes[M].vk.clone();
    // the honest current definition as H stores it
    let cur = {
        let conn = c.w.nodes[H].oracle_conn()?;
        dv::RoomNode::read(&conn, &r1).map_err(|e| e.to_string())?.ok_or("H has no room node")?
    };
    let mut rn = cur.clone();
    let date = c.now;
    let sign_edge = |src: Uid, src_entity: &str, label: &str, dest: Uid| -> Result<dv::Edge, String> {
        let mut e = dv::Edge { src, src_entity: src_entity.into(), label: label.into(), dest, cdate: date, verifying_key: vec![], signature: vec![] };
        e.sign(&mkey).map_err(|e| e.to_string())?;
        Ok(e)
    };
    let user_json = |k: &Vec<u8>| format!("{{\"32\":\"{}\",\"33\":true}}", dv::base64_encode(k));
    // storage names of the system entities, read from the honest definition
    let room_ent = cur.node._entity.clone();
    let auth_ent = cur.auth_nodes.first().map(|a| a.node._entity.clone()).unwrap_or_default();
    let admin_label = cur.admin_edges.first().map(|e| e.label.clone()).unwrap_or("32".into());
    let g_m = cur.auth_nodes.iter().position(|a| a.user_nodes.iter().any(|u| u.node._json.as_deref().map(|j| j.contains(&dv::base64_encode(&mvk))).unwrap_or(false)));
    let g_full = cur.auth_nodes.iter().position(|a| Some(a.node.id) != g_m.map(|i| cur.auth_nodes[i].node.id));
    let (Some(g_m), Some(g_full)) = (g_m, g_full) else { return Ok(None) };
    let user_label = cur.auth_nodes[g_m].user_edges.first().map(|e| e.label.clone()).unwrap_or_default();
    let right_label = cur.auth_nodes[g_full].right_edges.first().map(|e| e.label.clone()).unwrap_or_default();
    let user_ent = cur.auth_nodes[g_m].user_nodes.first().map(|u| u.node._entity.clone()).unwrap_or_default();
    let right_ent = cur.auth_nodes[g_full].right_nodes.first().map(|u| u.node._entity.clone()).unwrap_or_default();
    let mk_node = |entity: &str, json: String| -> Result<dv::Node, String> {
        let mut n = dv::Node { id: dv::new_uid(), room_id: None, cdate: date, mdate: date, _entity: entity.into(), _json: Some(json), _binary: None, verifying_key: vec![], _signature: vec![], _local_id: None };
        n.sign(&mkey).map_err(|e| e.to_string())?;
        Ok(n)
    };
    match op {
        "older-definition-with-entries-omitted" => {
            // the definition without M's user entry (as it was before M was added), claimed to be newer
            rn.auth_nodes[g_m].user_nodes.clear();
            rn.auth_nodes[g_m].user_edges.clear();
            if let Some(a) = rn.auth_nodes.get_mut(g_full) {
                if a.user_nodes.len() > 1 {
                    let gone = a.user_nodes.pop().unwrap();
                    a.user_edges.retain(|e| e.dest != gone.node.id);
                }
            }
        }
        "user-entry-reattached-as-admin" => {
            // the admin-signed user entry of M, attached under the admin list by a reference M signs
            let entry = cur.auth_nodes[g_m].user_nodes[0].clone();
            rn.admin_edges.push(sign_edge(r1, &room_ent, &admin_label, entry.node.id)?);
            rn.admin_nodes.push(entry);
        }
        "self-signed-admin-entry" => {
            let n = mk_node(&user_ent, user_json(&mvk))?;
            rn.admin_edges.push(sign_edge(r1, &room_ent, &admin_label, n.id)?);
            rn.admin_nodes.push(dv::UserNode { node: n });
        }
        "self-signed-right-entry" => {
            let tmpl = cur.auth_nodes[g_full].right_nodes[0].node._json.clone().unwrap_or_default();
            let n = mk_node(&right_ent, tmpl)?;
            let gid = cur.auth_nodes[g_m].node.id;
            rn.auth_nodes[g_m].right_edges.push(sign_edge(gid, &auth_ent, &right_label, n.id)?);
            rn.auth_nodes[g_m].right_nodes.push(dv::EntityRightNode { node: n });
        }
        "right-entry-of-another-room" => {
            // H's validly signed all-rights entry of room r2, attached to M's group of r1 by a reference M signs
            let other = {
                let conn = c.w.nodes[H].oracle_conn()?;
                dv::RoomNode::read(&conn, &c.r2.0).map_err(|e| e.to_string())?.ok_or("no r2 node")?
            };
            let entry = other.auth_nodes[0].right_nodes[0].clone();
            let gid = cur.auth_nodes[g_m].node.id;
            rn.auth_nodes[g_m].right_edges.push(sign_edge(gid, &auth_ent, &right_label, entry.node.id)?);
            rn.auth_nodes[g_m].right_nodes.push(entry);
        }
        "self-signed-user-admin-entry" => {
            let n = mk_node(&user_ent, user_json(&mvk))?;
            let gid = cur.auth_nodes[g_full].node.id;
            let ua_label = (right_label.parse::<usize>().unwrap_or(33) + 2).to_string();
            let ua_label = cur.auth_nodes.iter().flat_map(|a| a.user_admin_edges.iter()).map(|e| e.label.clone()).next().unwrap_or(ua_label);
            rn.auth_nodes[g_full].user_admin_edges.push(sign_edge(gid, &auth_ent, &ua_label, n.id)?);
            rn.auth_nodes[g_full].user_admin_nodes.push(dv::UserNode { node: n });
        }
        "existing-reference-signed-again-by-the-adversary" => {
            // the reference that makes H an admin, same source, label and target, signed by M at a later date
            let e0 = cur.admin_edges[0].clone();
            let e = sign_edge(e0.src, &e0.src_entity, &e0.label, e0.dest)?;
            rn.admin_edges.retain(|x| x.dest != e0.dest);
            rn.admin_edges.push(e);
        }
        "right-signed-by-a-former-admin-after-its-revocation" => {
            // K was an admin from the creation of the room and is disabled: it signs, dated now, an all-rights entry
            // for the adversary's group and the reference that places it
            let kkey = former_admin_key();
            let tmpl = cur.auth_nodes[g_full].right_nodes[0].node._json.clone().unwrap_or_default();
            let mut n = dv::Node { id: dv::new_uid(), room_id: None, cdate: date, mdate: date, _entity: right_ent.clone(), _json: Some(tmpl), _binary: None, verifying_key: vec![], _signature: vec![], _local_id: None };
            n.sign(&kkey).map_err(|e| e.to_string())?;
            let gid = cur.auth_nodes[g_m].node.id;
            let mut e = dv::Edge { src: gid, src_entity: auth_ent.clone(), label: right_label.clone(), dest: n.id, cdate: date, verifying_key: vec![], signature: vec![] };
            e.sign(&kkey).map_err(|e| e.to_string())?;
            rn.auth_nodes[g_m].right_edges.push(e);
            rn.auth_nodes[g_m].right_nodes.push(dv::EntityRightNode { node: n });
        }
        "existing-entry-altered-under-the-same-id" => {
            // an entry the victim stores, same id, other content, signed again by the adversary: the all-rights entry of the
            // full group turned into "no right", or the honest admin's entry turned into "disabled"
            c.counter += 1;
            if c.counter % 2 == 0 {
                let e = &mut rn.auth_nodes[g_full].right_nodes[0];
                e.node._json = e.node._json.clone().map(|j| j.replace("true", "false"));
                e.node.sign(&mkey).map_err(|e| e.to_string())?;
            } else {
                let e = &mut rn.admin_nodes[0];
                e.node._json = e.node._json.clone().map(|j| j.replace("true", "false"));
                e.node.sign(&mkey).map_err(|e| e.to_string())?;
            }
        }
        "user-entry-signed-by-a-revoked-user-admin" => {
            // the group of which M WAS the user admin: M adds itself as a user, dated now (after the revocation)
            let Some(g) = cur.auth_nodes.iter().position(|a| !a.user_admin_nodes.is_empty()) else { return Ok(None) };
            let n = mk_node(&user_ent, user_json(&mvk))?;
            let gid = cur.auth_nodes[g].node.id;
            rn.auth_nodes[g].user_edges.push(sign_edge(gid, &auth_ent, &user_label, n.id)?);
            rn.auth_nodes[g].user_nodes.push(dv::UserNode { node: n });
        }
        "entries-omitted-while-a-legitimate-entry-is-added" => {
            // `cur` already holds a user the honest admin has just added (see attack_c07); the sender leaves out
            // the entry that disables W as an admin and M's user entry, which the victim both stores
            if c.w.nodes.len() > W {
                let kw = dv::base64_encode(&c.w.nodes[W].vk);
                if let Some(last) = rn.admin_nodes.iter().filter(|u| u.node._json.as_deref().map(|j| j.contains(&kw)).unwrap_or(false)).map(|u| (u.node.mdate, u.node.id)).max() {
                    rn.admin_nodes.retain(|u| u.node.id != last.1);
                    rn.admin_edges.retain(|e| e.dest != last.1);
                }
            }
            rn.auth_nodes[g_m].user_nodes.clear();
            rn.auth_nodes[g_m].user_edges.clear();
        }
        "user-entry-moved-to-another-group" => {
            // M's (admin-signed) user entry of the restricted group attached to the all-rights group
            let entry = cur.auth_nodes[g_m].user_nodes[0].clone();
            let gid = cur.auth_nodes[g_full].node.id;
            rn.auth_nodes[g_full].user_edges.push(sign_edge(gid, &auth_ent, &user_label, entry.node.id)?);
            rn.auth_nodes[g_full].user_nodes.push(entry);
        }
        _ => {}
    }
    Ok(Some(rn))
}

fn attack_c07(c: &mut Ctx, op: &'static str) -> Result<(), String> {
    let r1 = c.r1.0;
    if op == "entries-omitted-while-a-legitimate-entry-is-added" {
        return attack_c07_merge(c, op);
    }
    // V first learns every honest change, so that nothing in the crafted definition is legitimately new
    let _ = run_session(c, None)?;
    let Some(rn) = craft_definition(c, op)? else { return Ok(()) };
    let before_grid = grid(c, V, r1)?;
    let before_entries = room_entries(c, V, &r1)?;
    let inj = Rc::new(RefCell::new(Inject { room_node: Some(rn), ..Default::default() }));
    let end = run_session(c, Some(inj.clone()))?;
    let fired = inj.borrow().fired.clone();
    c.w.fault(&format!("byz_{op}"));
    c.w.log.sched(format!("attack {op} end={} fired={}", matches!(end, SessionEnd::Ok), fired.join(",")));
    if !fired.contains(&"room-node-replaced") {
        c.w.probe("byz_operator_not_applied");
        return Ok(());
    }
    c.w.probe(&format!("applied_{op}"));
    let after_grid = grid(c, V, r1)?;
    let after_entries = room_entries(c, V, &r1)?;
    // monotone, whoever asks: every stored entry is still stored, unchanged
    if let Some(lost) = before_entries.iter().find(|e| !after_entries.contains(e)) {
        c.w.violation("C07", &format!("existing-entry-lost-or-altered/{op}"), format!("after the crafted definition V no longer stores: {lost}"));
    }
    if c.escalated {
        // V already believes the adversary is entitled (reported when it happened): its later additions say nothing new
        c.w.probe("additions_not_judged_after_an_escalation");
        return Ok(());
    }
    // nothing in these definitions is legitimately new: the decisions must not move and nothing new is stored
    let granted = before_grid.iter().zip(after_grid.iter()).find(|((_, b), (_, a))| *a && !*b).map(|(x, _)| x.0.clone());
    let revoked = before_grid.iter().zip(after_grid.iter()).find(|((_, b), (_, a))| !*a && *b).map(|(x, _)| x.0.clone());
    if let Some(label) = granted {
        c.escalated = true;
        c.w.violation("C07", &format!("escalation/{op}"), format!("after the crafted definition ({op}) V grants {label}, which it did not before and nobody entitled added"));
    } else if let Some(label) = revoked {
        c.w.violation("C07", &format!("decision-revoked/{op}"), format!("after the crafted definition ({op}) V no longer grants {label}"));
    } else if let Some(added) = after_entries.iter().find(|e| !before_entries.contains(e)) {
        c.w.violation("C07", &format!("unentitled-entry-stored/{op}"), format!("V stored an entry nobody entitled added: {added}"));
    }
    Ok(())
}

/// The honest admin adds an entry; the sender serves that newer definition with entries the victim already stores
/// left out. What the victim ends with must be exactly the honest definition: old entries kept, new entry added.
fn attack_c07_merge(c: &mut Ctx, op: &'static str) -> Result<(), String> {
    let r1 = c.r1.0;
    let _ = run_session(c, None)?;
    c.counter += 1;
    let fresh = dv::Ed25519SigningKey::create_from(&[c.counter as u8; 32]);
    let kf = dv::base64_encode(&dv::SigningKey::export_verifying_key(&fresh));
    c.now += 1000;
    clocks(c);
    let q = format!(r#"mutate {{ sys.Room{{ id:"{}" authorisations:[{{ id:"{}" users:[{{verif_key:"{kf}"}}] }}] }} }}"#, c.r1.1, c.g_full);
    c.w.nodes[H].mutate(&q, None)?;
    let _ = c.w.nodes[H].drain_events();
    let Some(rn) = craft_definition(c, op)? else { return Ok(()) };
    let before_entries = room_entries(c, V, &r1)?;
    let inj = Rc::new(RefCell::new(Inject { room_node: Some(rn), ..Default::default() }));
    let end = run_session(c, Some(inj.clone()))?;
    let fired = inj.borrow().fired.clone();
    c.w.fault(&format!("byz_{op}"));
    c.w.log.sched(format!("attack {op} end={} fired={}", matches!(end, SessionEnd::Ok), fired.join(",")));
    if !fired.contains(&"room-node-replaced") {
        c.w.probe("byz_operator_not_applied");
        return Ok(());
    }
    c.w.probe(&format!("applied_{op}"));
    let after_entries = room_entries(c, V, &r1)?;
    if let Some(lost) = before_entries.iter().find(|e| !after_entries.contains(e)) {
        c.w.violation("C07", &format!("existing-entry-lost-or-altered/{op}"), format!("after the definition with omissions V no longer stores: {lost}"));
    }
    if c.escalated {
        c.w.probe("additions_not_judged_after_an_escalation");
        return Ok(());
    }
    let truth = grid(c, H, r1)?;
    let got = grid(c, V, r1)?;
    if let Some(((label, t), (_, g))) = truth.iter().zip(got.iter()).find(|(x, y)| x.1 != y.1) {
        c.w.violation("C07", &format!("decisions-differ-from-old-plus-added/{op}"), format!("after a definition that adds a legitimate entry and leaves out entries V stores, V decides {label} = {g}; old entries plus the added one give {t}"));
    }
    // a restart must not change the decisions either (memory and storage agree)
    Ok(())
}

/// a member that never saw r1 imports the crafted definition as its first one
fn attack_c07_new(c: &mut Ctx, op: &'static str) -> Result<(), String> {
    let r1 = c.r1.0;
    let Some(rn) = craft_definition(c, op)? else { return Ok(()) };
    let inj = Rc::new(RefCell::new(Inject { room_node: Some(rn), ..Default::default() }));
    let end = run_session_of(c, W, Some(inj.clone()))?;
    let fired = inj.borrow().fired.clone();
    c.w.fault(&format!("byz_new_room_{op}"));
    c.w.log.sched(format!("attack-new {op} end={} fired={}", matches!(end, SessionEnd::Ok), fired.join(",")));
    if !fired.contains(&"room-node-replaced") {
        c.w.probe("byz_operator_not_applied");
        return Ok(());
    }
    c.w.probe(&format!("applied_new_room_{op}"));
    let truth = grid(c, H, r1)?;
    let got = grid(c, W, r1)?;
    if !got.first().map(|x| x.1).unwrap_or(false) {
        c.w.probe("new_room_definition_refused");
        return Ok(());
    }
    // anything the fresh member grants that the honest definition does not is an escalation
    let honest = room_entries(c, H, &r1)?;
    if let Some(((label, _), _)) = truth.iter().zip(got.iter()).find(|((_, t), (_, g))| *g && !*t) {
        c.w.violation("C07", &format!("escalation/room-not-seen-before/{op}"), format!("a member importing r1 for the first time through the crafted definition ({op}) grants {label}, which the honest definition does not"));
    } else if let Some(added) = room_entries(c, W, &r1)?.into_iter().find(|e| !honest.contains(e)) {
        c.w.violation("C07", &format!("unentitled-entry-stored/room-not-seen-before/{op}"), format!("the fresh member stored an entry nobody entitled added: {added}"));
    }
    Ok(())
}
