//! Engine `phase` (C16): 2-3 mutations touching the same row in flight together on a live node.
//! With one reader thread and one authorisation actor the read and validate/sign phases of the mutations
//! happen in issue order; the freedom the production pipeline has is WHEN the batch writer commits relative
//! to the later reads. The simulator decides it with the batch gate (H7): requests are held in the writer's
//! buffer until a chosen flush point, so that a later mutation is read before or after an earlier one is
//! written. Oracle: the final row must be the result of the acknowledged mutations applied one after another
//! in SOME order.
use crate::kit::{Rng, T0};
use crate::node::SimNode;
use crate::world::{Trace, World};
use discret::verif as dv;
use discret::verif::Writeable;
use serde::{Deserialize, Serialize};
use std::collections::BTreeMap;

pub const MODEL: &str = "{
    Person{ name:String, nick:String nullable, age:Integer default 0, parents:[Person], pet:Pet nullable, mentor:Person nullable }
    Pet{ name:String }
}";

#[derive(Clone, Debug, Serialize, Deserialize)]
pub struct Cfg {
    pub via_stream: bool,
    pub write_buffer_length: usize,
}

/// what one mutation assigns
#[derive(Clone, Debug, Serialize, Deserialize, Default)]
pub struct Mut {
    pub name: bool,
    pub nick: bool,
    pub age: bool,
    pub parent: Option<usize>,
    pub pet: Option<usize>,
    /// single reference to one of the rows `parent` can also point to (two fields, same target)
    #[serde(default)]
    pub mentor: Option<usize>,
    pub room: Option<usize>,
    /// the nullable field `nick` is cleared: null passed as a parameter
    #[serde(default)]
    pub nick_null: bool,
    /// the assigned scalar values are the ones the row was created with (an assignment that may change nothing)
    #[serde(default)]
    pub keep: bool,
}

#[derive(Clone, Debug, Serialize, Deserialize)]
#[serde(tag = "t")]
pub enum Step {
    /// issue mutation `m` (its read and validate/sign phases run now; its write waits at the gate)
    Issue { m: Mut },
    /// the writer commits everything issued so far, in issue order, in one transaction
    Flush,
}

fn shape(m: &Mut) -> String {
    let mut v = vec![];
    if m.name {
        v.push("name")
    }
    if m.nick {
        v.push("nick")
    }
    if m.age {
        v.push("age")
    }
    if m.nick_null {
        v.push("nick-cleared")
    }
    if m.parent.is_some() {
        v.push("ref-add")
    }
    if m.pet.is_some() {
        v.push("ref-replace")
    }
    if m.mentor.is_some() {
        v.push("ref-replace-same-target-set")
    }
    if m.room.is_some() {
        v.push("room-move")
    }
    if m.keep {
        v.push("initial-values")
    }
    v.join("+")
}

fn gen_mut(r: &mut Rng) -> Mut {
    let mut m = Mut::default();
    match r.weighted(&[30, 25, 15, 12, 10, 8, 10]) {
        0 => m.name = true,
        1 => m.nick = true,
        2 => m.age = true,
        3 => m.parent = Some(r.usize(2)),
        4 => m.pet = Some(r.usize(2)),
        6 => m.mentor = Some(r.usize(2)),
        _ => {
            m.room = Some(1);
            m.name = true;
            m.keep = r.chance(1, 2);
        }
    }
    if r.chance(1, 5) {
        m.age = true;
    }
    if r.chance(1, 8) {
        m.keep = true;
    }
    if !m.nick && r.chance(1, 7) {
        m.nick_null = true;
    }
    m
}

pub fn generate(seed: u64, property: &str, _thorough: bool) -> Trace {
    let mut rc = Rng::stream(seed, "config");
    let mut rs = Rng::stream(seed, "schedule");
    let cfg = Cfg { via_stream: rc.chance(1, 3), write_buffer_length: *rc.pick(&[1usize, 8, 1024]) };
    let n = 2 + rs.usize(2);
    let mut steps = vec![];
    for i in 0..n {
        steps.push(Step::Issue { m: gen_mut(&mut rs) });
        if i + 1 < n && rs.chance(1, 3) {
            steps.push(Step::Flush);
        }
    }
    steps.push(Step::Flush);
    Trace {
        engine: "phase".into(),
        property: property.into(),
        seed,
        cfg: serde_json::to_value(&cfg).unwrap(),
        steps: steps.iter().map(|s| serde_json::to_value(s).unwrap()).collect(),
        expect_fingerprint: None,
        note: None,
    }
}

pub fn directed(property: &str) -> Vec<Trace> {
    let mk = |name: &str, via_stream: bool, steps: Vec<Step>| Trace {
        engine: "phase".into(),
        property: property.into(),
        seed: 0,
        cfg: serde_json::to_value(&Cfg { via_stream, write_buffer_length: 1024 }).unwrap(),
        steps: steps.iter().map(|s| serde_json::to_value(s).unwrap()).collect(),
        expect_fingerprint: None,
        note: Some(name.to_string()),
    };
    let name = Mut { name: true, ..Default::default() };
    let nick = Mut { nick: true, ..Default::default() };
    vec![
        mk("C16 R1 R2 V1 V2 W1 W2 on different fields of one row", false, vec![Step::Issue { m: name.clone() }, Step::Issue { m: nick.clone() }, Step::Flush]),
        mk("C16 the same, serialised (R1 V1 W1 R2 V2 W2)", false, vec![Step::Issue { m: name.clone() }, Step::Flush, Step::Issue { m: nick.clone() }, Step::Flush]),
        mk("C16 reference add and field update in flight together", false, vec![Step::Issue { m: Mut { parent: Some(0), ..Default::default() } }, Step::Issue { m: name.clone() }, Step::Flush]),
        mk("C16 room move and field update in flight together", false, vec![Step::Issue { m: Mut { room: Some(1), name: true, ..Default::default() } }, Step::Issue { m: nick.clone() }, Step::Flush]),
        mk(
            "C16 one at a time: a room move that re-sends the unchanged name, then another field",
            false,
            vec![Step::Issue { m: Mut { room: Some(1), name: true, keep: true, ..Default::default() } }, Step::Flush, Step::Issue { m: nick.clone() }, Step::Flush],
        ),
        mk(
            "C16 one at a time: a field set, then the same field set back to its first value together with a reference",
            false,
            vec![Step::Issue { m: name.clone() }, Step::Flush, Step::Issue { m: Mut { name: true, keep: true, parent: Some(0), ..Default::default() } }, Step::Flush],
        ),
        mk(
            "C16 one at a time: the same row is added as a parent and set as mentor, then the mentor is replaced",
            false,
            vec![
                Step::Issue { m: Mut { parent: Some(0), ..Default::default() } },
                Step::Flush,
                Step::Issue { m: Mut { mentor: Some(0), ..Default::default() } },
                Step::Flush,
                Step::Issue { m: Mut { mentor: Some(1), name: true, ..Default::default() } },
                Step::Flush,
            ],
        ),
        mk(
            "C16 one at a time (and on the stream): a nullable field is set, then cleared with a null parameter, then another field",
            false,
            vec![Step::Issue { m: nick.clone() }, Step::Flush, Step::Issue { m: Mut { nick_null: true, ..Default::default() } }, Step::Flush, Step::Issue { m: name.clone() }, Step::Flush],
        ),
        mk(
            "C16 the same on the mutation stream",
            true,
            vec![Step::Issue { m: nick.clone() }, Step::Flush, Step::Issue { m: Mut { nick_null: true, ..Default::default() } }, Step::Flush, Step::Issue { m: name.clone() }, Step::Flush],
        ),
        mk("C16 two mutations pipelined on the mutation stream", true, vec![Step::Issue { m: name }, Step::Issue { m: nick }, Step::Flush]),
    ]
}

struct Noop;
impl Writeable for Noop {
    fn write(&mut self, _conn: &rusqlite::Connection) -> Result<(), rusqlite::Error> {
        Ok(())
    }
}

#[derive(Clone, Debug, Default, PartialEq)]
struct RowState {
    name: String,
    nick: Option<String>,
    age: i64,
    parents: Vec<String>,
    pet: Option<String>,
    mentor: Option<String>,
    room: String,
}

pub fn execute(trace: &Trace, keep_log: bool) -> (crate::kit::RunReport, Vec<String>) {
    let cfg: Cfg = serde_json::from_value(trace.cfg.clone()).expect("bad phase cfg");
    let steps: Vec<Step> = trace.steps.iter().filter_map(|s| serde_json::from_value(s.clone()).ok()).collect();
    let mut w = World::new("phase", trace.seed, keep_log);
    match run(&mut w, &cfg, &steps) {
        Ok(()) => {}
        Err(e) => w.harness_error(e),
    }
    w.finish()
}

fn run(w: &mut World, cfg: &Cfg, steps: &[Step]) -> Result<(), String> {
    let mut conf = dv::Configuration::default();
    conf.parallelism = 1;
    conf.write_buffer_length = cfg.write_buffer_length;
    let mut n = SimNode::new(0, "a", 10, &w.root, MODEL, conf, T0, w.report.seed);
    n.start()?;
    let ka = dv::base64_encode(&n.vk);
    let mut rooms = vec![];
    for _ in 0..2 {
        n.clock += 10;
        let q = format!(r#"mutate {{ sys.Room{{ admin:[{{verif_key:"{ka}"}}] authorisations:[{{ name:"all" rights:[{{entity:"*" mutate_self:true mutate_all:true}}] users:[{{verif_key:"{ka}"}}] }}] }} }}"#);
        let r = n.mutate(&q, None)?;
        let v: serde_json::Value = serde_json::from_str(&r).map_err(|e| e.to_string())?;
        rooms.push(v["sys.Room"]["id"].as_str().ok_or("no room id")?.to_string());
    }
    n.clock += 10;
    let mk = |n: &mut SimNode, q: &str, p: serde_json::Value, ent: &str| -> Result<String, String> {
        let r = n.mutate(q, Some(&p.to_string()))?;
        let v: serde_json::Value = serde_json::from_str(&r).map_err(|e| e.to_string())?;
        Ok(v[ent]["id"].as_str().ok_or("no id")?.to_string())
    };
    let row = mk(&mut n, "mutate { Person{ room_id:$r name:$n nick:$k } }", serde_json::json!({"r": rooms[0], "n": "name0", "k": "nick0"}), "Person")?;
    let others = vec![
        mk(&mut n, "mutate { Person{ room_id:$r name:$n } }", serde_json::json!({"r": rooms[0], "n": "other0"}), "Person")?,
        mk(&mut n, "mutate { Person{ room_id:$r name:$n } }", serde_json::json!({"r": rooms[0], "n": "other1"}), "Person")?,
    ];
    let pets = vec![
        mk(&mut n, "mutate { Pet{ room_id:$r name:$n } }", serde_json::json!({"r": rooms[0], "n": "pet0"}), "Pet")?,
        mk(&mut n, "mutate { Pet{ room_id:$r name:$n } }", serde_json::json!({"r": rooms[0], "n": "pet1"}), "Pet")?,
    ];
    let initial = RowState { name: "name0".into(), nick: Some("nick0".into()), age: 0, parents: vec![], pet: None, mentor: None, room: rooms[0].clone() };

    // the mutations, numbered; values are unique so every field value is attributable to one mutation
    let mut muts: Vec<(usize, Mut)> = vec![];
    let mut handles: Vec<(usize, tokio::task::JoinHandle<Result<(), String>>)> = vec![];
    let mut stream: Option<tokio::sync::mpsc::Sender<(String, Option<dv::Parameters>)>> = None;
    let stream_results: std::sync::Arc<std::sync::Mutex<Vec<Result<(), String>>>> = Default::default();
    let mut stream_pending: Vec<usize> = vec![];
    let mut acked: Vec<usize> = vec![];
    let mut in_flight = 0usize;
    let mut max_in_flight = 0usize;
    dv::set_hold(0, 1_000_000);
    for st in steps {
        w.step_no += 1;
        match st {
            Step::Issue { m } => {
                let i = muts.len();
                muts.push((i, m.clone()));
                n.clock += 1;
                let mut fields = String::from("id:$id");
                let mut p = serde_json::Map::new();
                p.insert("id".into(), row.clone().into());
                if m.name {
                    fields.push_str(" name:$n");
                    p.insert("n".into(), if m.keep { "name0".to_string() } else { format!("name-m{i}") }.into());
                }
                if m.nick {
                    fields.push_str(" nick:$k");
                    p.insert("k".into(), if m.keep { "nick0".to_string() } else { format!("nick-m{i}") }.into());
                }
                if m.nick_null {
                    fields.push_str(" nick:$kn");
                    p.insert("kn".into(), serde_json::Value::Null);
                }
                if m.age {
                    fields.push_str(" age:$a");
                    p.insert("a".into(), (if m.keep { 0 } else { 100 + i as i64 }).into());
                }
                if let Some(t) = m.parent {
                    fields.push_str(" parents:[{id:$t}]");
                    p.insert("t".into(), others[t % 2].clone().into());
                }
                if let Some(t) = m.pet {
                    fields.push_str(" pet:{id:$pt}");
                    p.insert("pt".into(), pets[t % 2].clone().into());
                }
                if let Some(t) = m.mentor {
                    fields.push_str(" mentor:{id:$mt}");
                    p.insert("mt".into(), others[t % 2].clone().into());
                }
                if let Some(r) = m.room {
                    fields.push_str(" room_id:$r");
                    p.insert("r".into(), rooms[r % 2].clone().into());
                }
                let q = format!("mutate {{ Person{{ {fields} }} }}");
                let params = dv::Parameters::from_json(&serde_json::Value::Object(p).to_string()).map_err(|e| e.to_string())?;
                w.log.sched(format!("issue m{i} {}", shape(m)));
                if cfg.via_stream {
                    if stream.is_none() {
                        n.activate();
                        let (tx, mut rx) = {
                            let _g = n.rt().enter();
                            n.dbh().mutation_stream()
                        };
                        // the caller of a stream reads its results as they come
                        let sink = stream_results.clone();
                        let _ = n.spawn(async move {
                            while let Some(r) = rx.recv().await {
                                sink.lock().unwrap().push(r.map(|_| ()).map_err(|e| e.to_string()));
                            }
                        });
                        stream = Some(tx);
                    }
                    let tx = stream.as_ref().unwrap().clone();
                    let h = n.spawn(async move { tx.send((q, Some(params))).await.map_err(|e| e.to_string()) });
                    handles.push((usize::MAX, h));
                    stream_pending.push(i);
                } else {
                    let db = n.dbh();
                    let h = n.spawn(async move { db.mutate(&q, Some(params)).await.map(|_| ()).map_err(|e| e.to_string()) });
                    handles.push((i, h));
                }
                in_flight += 1;
                max_in_flight = max_in_flight.max(in_flight);
                n.settle().map_err(|e| format!("{e:?}"))?;
            }
            Step::Flush => {
                w.fault(&format!("gate_batch_{}", dv::held_now(0).min(9)));
                dv::set_hold(0, 0);
                let wr = n.dbh().db.writer.clone();
                let _ = n.spawn(async move { wr.write(Box::new(Noop)).await.map(|_| ()).map_err(|e| e.to_string()) });
                n.settle().map_err(|e| format!("{e:?}"))?;
                w.log.sched("flush");
                // collect acknowledgements
                let mut rest = vec![];
                for (i, h) in handles.drain(..) {
                    if h.is_finished() {
                        let r = n.rt().block_on(async { h.await }).map_err(|e| e.to_string())?;
                        if i != usize::MAX {
                            match r {
                                Ok(()) => acked.push(i),
                                Err(e) => w.log.log(format!("m{i} refused: {e}")),
                            }
                        }
                    } else {
                        rest.push((i, h));
                    }
                }
                handles = rest;
                {
                    let mut res = stream_results.lock().unwrap();
                    for r in res.drain(..) {
                        if !stream_pending.is_empty() {
                            let i = stream_pending.remove(0);
                            match r {
                                Ok(_) => acked.push(i),
                                Err(e) => w.log.log(format!("m{i} refused: {e}")),
                            }
                        }
                    }
                }
                in_flight = 0;
                dv::set_hold(0, 1_000_000);
            }
        }
    }
    dv::set_hold(0, 0);
    drop(stream);
    n.settle().map_err(|e| format!("{e:?}"))?;
    if !handles.is_empty() || !stream_pending.is_empty() {
        w.harness_error(format!("{} mutations still in flight after the last flush", handles.len() + stream_pending.len()));
    }

    // actual final row
    let r = n.query(
        "query { Person(id=$id){ name nick age room_id parents(order_by(name asc), nullable()){ id } pet(nullable()){ id } } }",
        Some(&serde_json::json!({"id": row}).to_string()),
    );
    let r = match r {
        Ok(r) => r,
        Err(_) => n.query("query { Person(id=$id){ name nick age room_id } }", Some(&serde_json::json!({"id": row}).to_string()))?,
    };
    let v: serde_json::Value = serde_json::from_str(&r).map_err(|e| e.to_string())?;
    let p = &v["Person"][0];
    let conn = n.oracle_conn()?;
    let rid = dv::uid_decode(&row).map_err(|e| e.to_string())?;
    let mut parents: Vec<String> = vec![];
    let mut pet: Option<String> = None;
    let mut mentor: Option<String> = None;
    {
        let mut st = conn.prepare("SELECT label, dest FROM _edge WHERE src = ? ORDER BY label, dest").map_err(|e| e.to_string())?;
        let mut rows = st.query([rid.as_slice()]).map_err(|e| e.to_string())?;
        let mut by_label: BTreeMap<String, Vec<String>> = BTreeMap::new();
        while let Some(rw) = rows.next().map_err(|e| e.to_string())? {
            let l: String = rw.get(0).map_err(|e| e.to_string())?;
            let d: Vec<u8> = rw.get(1).map_err(|e| e.to_string())?;
            by_label.entry(l).or_default().push(dv::base64_encode(&d));
        }
        // labels follow the declaration order of the model: parents "35", pet "36", mentor "37"
        for (label, ds) in by_label {
            match label.as_str() {
                "35" => parents = ds,
                "36" => {
                    if ds.len() > 1 {
                        w.violation("C16", "mixed-state/two-targets-in-a-single-reference", format!("the single reference 'pet' holds {} targets", ds.len()));
                    }
                    pet = ds.first().cloned();
                }
                "37" => {
                    if ds.len() > 1 {
                        w.violation("C16", "mixed-state/two-targets-in-a-single-reference", format!("the single reference 'mentor' holds {} targets", ds.len()));
                    }
                    mentor = ds.first().cloned();
                }
                other => return Err(format!("unexpected reference label {other}")),
            }
        }
    }
    parents.sort();
    let actual = RowState {
        name: p["name"].as_str().unwrap_or("").to_string(),
        nick: p["nick"].as_str().map(|s| s.to_string()),
        age: p["age"].as_i64().unwrap_or(0),
        parents,
        pet,
        mentor,
        room: p["room_id"].as_str().unwrap_or("").to_string(),
    };

    // legal finals: every permutation of the acknowledged mutations applied serially
    let apply = |s: &mut RowState, i: usize, m: &Mut| {
        if m.name {
            s.name = if m.keep { "name0".to_string() } else { format!("name-m{i}") };
        }
        if m.nick {
            s.nick = Some(if m.keep { "nick0".to_string() } else { format!("nick-m{i}") });
        }
        if m.nick_null {
            s.nick = None;
        }
        if m.age {
            s.age = if m.keep { 0 } else { 100 + i as i64 };
        }
        if let Some(t) = m.parent {
            let id = others[t % 2].clone();
            if !s.parents.contains(&id) {
                s.parents.push(id);
                s.parents.sort();
            }
        }
        if let Some(t) = m.pet {
            s.pet = Some(pets[t % 2].clone());
        }
        if let Some(t) = m.mentor {
            s.mentor = Some(others[t % 2].clone());
        }
        if let Some(r) = m.room {
            s.room = rooms[r % 2].clone();
        }
    };
    let mut legal = vec![];
    let mut idx: Vec<usize> = acked.clone();
    idx.sort();
    permute(&mut idx.clone(), 0, &mut |perm: &[usize]| {
        let mut s = initial.clone();
        for i in perm {
            apply(&mut s, *i, &muts[*i].1);
        }
        legal.push(s);
    });
    w.report.nontrivial = acked.len() >= 2;
    w.probe(&format!("in_flight_together_{max_in_flight}"));
    w.states.insert(format!("{:?}", actual).len().to_string());
    if !legal.contains(&actual) {
        let shapes: Vec<String> = acked.iter().map(|i| shape(&muts[*i].1)).collect();
        let together = if max_in_flight >= 2 { "mutations-in-flight-together" } else { "one-mutation-at-a-time" };
        w.violation(
            "C16",
            &format!("lost-update/{together}"),
            format!("acknowledged mutations {shapes:?} ({}) end in {actual:?}, which is not the result of applying them in any order (legal: {legal:?})", if cfg.via_stream { "mutation stream" } else { "concurrent callers" }),
        );
    }
    let _ = n.stop();
    Ok(())
}

fn permute(v: &mut Vec<usize>, k: usize, f: &mut dyn FnMut(&[usize])) {
    if k == v.len() {
        f(v);
        return;
    }
    for i in k..v.len() {
        v.swap(k, i);
        permute(v, k + 1, f);
        v.swap(k, i);
    }
}
