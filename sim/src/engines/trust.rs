//! Engine `trust` (C19, and the connection-loop part of C20): real connection loops (LocalPeerService::start,
//! InboundQueryService, QueryService), a real PeerManager on a stub endpoint, a real RoomLockService.
//! The remote end of each connection is either another honest node (all six streams relayed message by message)
//! or the simulator's adversary holding the keys of its own identities only.
use crate::conn::{err_answer, ok_answer, Conn, Host, PeerNote};
use crate::kit::{Rng, T0};
use crate::node::SimNode;
use crate::world::{Trace, World};
use discret::verif as dv;
use discret::verif::{Answer, RemoteEvent, SyncQuery, TokenType, Uid};
use serde::{Deserialize, Serialize};
use std::collections::VecDeque;
use tokio::sync::mpsc;

pub const MODEL: &str = "{ Person{ name:String } }";
const DERIVE_STRING: &str = "P";

#[derive(Clone, Debug, Serialize, Deserialize)]
pub struct Cfg {
    pub nodes: usize,
}

/// how the adversary answers the victim's identity challenge
pub const BEHAVIOURS: [&str; 8] = [
    "honest-own-key",
    "wrong-key",
    "replayed-answer-of-another-connection",
    "valid-proof-by-another-allowed-peer",
    "malformed-peer-row",
    "signature-over-other-bytes",
    "no-answer",
    "answer-after-timeout",
];

#[derive(Clone, Debug, Serialize, Deserialize)]
#[serde(tag = "t")]
pub enum Step {
    /// node `owner` creates an invitation
    Invite { owner: usize },
    /// node `node` accepts invitation `inv` (tamper: 0 none, 1 truncated, 2 random bytes, 3 one byte flipped, 4 names another application)
    Accept { node: usize, inv: usize, tamper: usize },
    /// two honest nodes connect with invitation `inv` (owner side / invitee side), all streams relayed
    ConnectInvite { owner: usize, invitee: usize, inv: usize },
    /// two honest nodes that allow each other connect with their meeting token
    ConnectAllowed { a: usize, b: usize },
    /// the adversary (identity of node `adv`) opens a connection on `victim` using the token of allowed peer `claims`
    /// (or invitation `inv` when `use_invite`), and answers the identity challenge with `behaviour`
    Attack { victim: usize, adv: usize, claims: usize, use_invite: bool, inv: usize, behaviour: usize },
    /// restart a node (in-memory token tables are rebuilt from storage)
    Restart { node: usize },
    /// C20: a connection of `victim` to a scripted remote is closed while lock grants may be unread; then a probe
    /// connection must obtain every room (how: 0 close before the room list answer, 1 close during a pull, 2 close after grant)
    LockLeak { victim: usize, how: usize },
}

struct PeerSide {
    host: Host,
    pm: dv::PeerManager,
    _ep_rx: mpsc::Receiver<dv::network::EndpointMessage>,
}

struct Ctx {
    w: World,
    cfg: Cfg,
    sides: Vec<Option<PeerSide>>,
    invites: Vec<(usize, Vec<u8>, Uid)>,
    /// identity answers recorded on honest connections: (answering node, answer) for replay attacks
    recorded: Vec<(usize, dv::IdentityAnswer)>,
    conn_no: u8,
    now: i64,
    any: bool,
    rooms: Vec<Vec<Uid>>,
    /// invitation id -> peers it admitted on its owner
    invite_uses: std::collections::BTreeMap<Uid, Vec<usize>>,
}

pub fn generate(seed: u64, property: &str, thorough: bool) -> Trace {
    let mut rc = Rng::stream(seed, "config");
    let mut rw = Rng::stream(seed, "workload");
    let nodes = 3 + rc.usize(2);
    let mut steps = vec![];
    if property == "C20" {
        let n = 1 + rw.usize(3);
        for _ in 0..n {
            steps.push(Step::LockLeak { victim: rw.usize(nodes), how: rw.usize(3) });
        }
    } else {
        let n = if thorough { 10 + rw.usize(20) } else { 5 + rw.usize(10) };
        let mut invs = 0usize;
        steps.push(Step::Invite { owner: 0 });
        invs += 1;
        steps.push(Step::Accept { node: 1, inv: 0, tamper: 0 });
        steps.push(Step::ConnectInvite { owner: 0, invitee: 1, inv: 0 });
        for _ in 0..n {
            match rw.weighted(&[10, 12, 14, 10, 40, 4]) {
                0 => {
                    steps.push(Step::Invite { owner: rw.usize(nodes) });
                    invs += 1;
                }
                1 => steps.push(Step::Accept { node: rw.usize(nodes), inv: rw.usize(invs), tamper: if rw.chance(2, 3) { 0 } else { 1 + rw.usize(4) } }),
                2 if rw.chance(1, 4) => {
                    // reuse pattern: an invitee that is already allowed uses one more invitation, then somebody else tries it
                    let owner = rw.usize(nodes);
                    let a = (owner + 1 + rw.usize(nodes - 1)) % nodes;
                    let b = (owner + 1 + rw.usize(nodes - 1)) % nodes;
                    for who in [a, a, b] {
                        if who == a && invs > 0 && rw.chance(1, 2) {
                            steps.push(Step::Invite { owner });
                            invs += 1;
                        }
                        steps.push(Step::Accept { node: who, inv: invs - 1, tamper: 0 });
                        steps.push(Step::ConnectInvite { owner, invitee: who, inv: invs - 1 });
                    }
                }
                2 => steps.push(Step::ConnectInvite { owner: rw.usize(nodes), invitee: rw.usize(nodes), inv: rw.usize(invs) }),
                3 => steps.push(Step::ConnectAllowed { a: rw.usize(nodes), b: rw.usize(nodes) }),
                4 => steps.push(Step::Attack {
                    victim: rw.usize(nodes),
                    adv: rw.usize(nodes),
                    claims: rw.usize(nodes),
                    use_invite: rw.chance(1, 3),
                    inv: rw.usize(invs),
                    behaviour: rw.usize(BEHAVIOURS.len()),
                }),
                _ => steps.push(Step::Restart { node: rw.usize(nodes) }),
            }
        }
    }
    Trace {
        engine: "trust".into(),
        property: property.into(),
        seed,
        cfg: serde_json::to_value(&Cfg { nodes }).unwrap(),
        steps: steps.iter().map(|s| serde_json::to_value(s).unwrap()).collect(),
        expect_fingerprint: None,
        note: None,
    }
}

pub fn directed(property: &str) -> Vec<Trace> {
    let mk = |name: &str, steps: Vec<Step>| Trace {
        engine: "trust".into(),
        property: property.into(),
        seed: 0,
        cfg: serde_json::to_value(&Cfg { nodes: 3 }).unwrap(),
        steps: steps.iter().map(|s| serde_json::to_value(s).unwrap()).collect(),
        expect_fingerprint: None,
        note: Some(name.to_string()),
    };
    let mut out = vec![];
    match property {
        "C19" => {
            let base = vec![Step::Invite { owner: 0 }, Step::Accept { node: 1, inv: 0, tamper: 0 }, Step::ConnectInvite { owner: 0, invitee: 1, inv: 0 }];
            for b in 1..BEHAVIOURS.len() {
                let mut s = base.clone();
                s.push(Step::Attack { victim: 0, adv: 2, claims: 1, use_invite: false, inv: 0, behaviour: b });
                out.push(mk(&format!("C19 adversary on an allowed peer's token: {}", BEHAVIOURS[b]), s));
            }
            let mut s = base.clone();
            s.push(Step::Accept { node: 2, inv: 0, tamper: 0 });
            s.push(Step::ConnectInvite { owner: 0, invitee: 2, inv: 0 });
            out.push(mk("C19 invitation offered twice (second invitee after the first was accepted)", s));
            let mut s = base.clone();
            s.push(Step::Attack { victim: 0, adv: 2, claims: 2, use_invite: true, inv: 0, behaviour: 0 });
            out.push(mk("C19 adversary presents an invitation that was already consumed", s));
            let mut s = base.clone();
            s.push(Step::Restart { node: 0 });
            s.push(Step::Accept { node: 2, inv: 0, tamper: 0 });
            s.push(Step::ConnectInvite { owner: 0, invitee: 2, inv: 0 });
            out.push(mk("C19 consumed invitation offered again after the owner restarted", s));
            // an invitation used by a peer that is ALREADY allowed is consumed like any other
            let mut s = base.clone();
            s.push(Step::Invite { owner: 0 });
            s.push(Step::Accept { node: 1, inv: 1, tamper: 0 });
            s.push(Step::ConnectInvite { owner: 0, invitee: 1, inv: 1 });
            s.push(Step::Accept { node: 2, inv: 1, tamper: 0 });
            s.push(Step::ConnectInvite { owner: 0, invitee: 2, inv: 1 });
            out.push(mk("C19 second invitation used by a peer that is already allowed, then offered to another peer", s.clone()));
            s.insert(6, Step::Restart { node: 0 });
            out.push(mk("C19 the same, the owner restarting before the second offer", s));
        }
        "C20" => {
            for how in 0..3 {
                out.push(mk(&format!("C20 connection ends with lock grants possibly unread (exit path {how})"), vec![Step::LockLeak { victim: 0, how }]));
            }
        }
        _ => {}
    }
    out
}

pub fn execute(trace: &Trace, keep_log: bool) -> (crate::kit::RunReport, Vec<String>) {
    let cfg: Cfg = serde_json::from_value(trace.cfg.clone()).expect("bad trust cfg");
    let steps: Vec<Step> = trace.steps.iter().filter_map(|s| serde_json::from_value(s.clone()).ok()).collect();
    let w = World::new("trust", trace.seed, keep_log);
    let mut c = Ctx { w, cfg, sides: vec![], invites: vec![], recorded: vec![], conn_no: 0, now: T0, any: false, rooms: vec![], invite_uses: Default::default() };
    if let Err(e) = setup(&mut c) {
        c.w.harness_error(format!("setup: {e}"));
        return c.w.finish();
    }
    for (i, st) in steps.iter().enumerate() {
        c.w.step_no = i + 1;
        if let Err(e) = exec_step(&mut c, st, &trace.property) {
            c.w.harness_error(format!("step {i} {st:?}: {e}"));
            break;
        }
    }
    c.sides.clear();
    c.w.report.nontrivial = c.any;
    c.w.finish()
}

fn params_of(n: &SimNode) -> dv::DiscretParams {
    dv::DiscretParams {
        app_key: crate::node::APP.to_string(),
        verifying_key: n.vk.clone(),
        private_room_id: n.private_room,
        hardware_fingerprint: dv::HardwareFingerprint { id: [7; 16], name: "dsim".into() },
        configuration: n.cfg.clone(),
    }
}

fn make_side(n: &mut SimNode, max_locks: usize) -> Result<PeerSide, String> {
    let host = Host::new(n, max_locks);
    let (ep_tx, ep_rx) = mpsc::channel(1024);
    let mut id = [0u8; 16];
    id[0] = n.idx as u8 + 1;
    let endpoint = dv::network::DiscretEndpoint { id, sender: ep_tx, ipv4_port: 0, ipv4_cert_hash: [n.idx as u8; 32] };
    let params = params_of(n);
    let services = n.services.clone().ok_or("node down")?;
    let secret = n.meeting_secret();
    let pm = n
        .drive(async { dv::PeerManager::new(&params, &services, endpoint, None, secret).await })
        .map_err(|e| format!("{e:?}"))?
        .map_err(|e| e.to_string())?;
    Ok(PeerSide { host, pm, _ep_rx: ep_rx })
}

fn setup(c: &mut Ctx) -> Result<(), String> {
    let seed = c.w.report.seed;
    for i in 0..c.cfg.nodes {
        let mut conf = dv::Configuration::default();
        conf.parallelism = 1;
        conf.enable_multicast = false;
        conf.enable_beacons = false;
        let mut n = SimNode::new(i, &format!("n{i}"), (10 + i * 30) as u8, &c.w.root, MODEL, conf, T0, seed + i as u64);
        n.start()?;
        // two rooms of its own (lock scenarios need rooms the node knows)
        let k = dv::base64_encode(&n.vk);
        let mut rooms = vec![];
        for _ in 0..2 {
            n.clock += 10;
            let q = format!(r#"mutate {{ sys.Room{{ admin:[{{verif_key:"{k}"}}] authorisations:[{{ name:"g" rights:[{{entity:"*" mutate_self:true mutate_all:true}}] users:[{{verif_key:"{k}"}}] }}] }} }}"#);
            let r = n.mutate(&q, None)?;
            let v: serde_json::Value = serde_json::from_str(&r).map_err(|e| e.to_string())?;
            rooms.push(dv::uid_decode(v["sys.Room"]["id"].as_str().unwrap_or("")).map_err(|e| e.to_string())?);
        }
        let _ = n.drain_events();
        c.rooms.push(rooms);
        c.w.nodes.push(n);
    }
    for i in 0..c.cfg.nodes {
        let side = make_side(&mut c.w.nodes[i], 2)?;
        c.sides.push(Some(side));
    }
    Ok(())
}

/// process what the node told its peer service with the real PeerManager (as process_peer_message does)
fn pump(c: &mut Ctx, node: usize) -> Result<(), String> {
    for _ in 0..6 {
        let Some(side) = c.sides[node].as_mut() else { return Ok(()) };
        let any = side.host.pump(&mut c.w.nodes[node]).map_err(|e| format!("{e:?}"))?;
        let accepted: Vec<(TokenType, dv::Node)> = side.host.invites_accepted.drain(..).collect();
        for (t, peer) in accepted {
            let pm = &mut side.pm;
            let r = c.w.nodes[node].drive(async { pm.invite_accepted(t, peer).await }).map_err(|e| format!("{e:?}"))?;
            if let Err(e) = r {
                c.w.log.log(format!("n{node} invite_accepted failed: {e}"));
            }
        }
        if !any {
            break;
        }
    }
    Ok(())
}

fn peer_row(c: &mut Ctx, node: usize) -> Result<dv::Node, String> {
    let db = c.w.nodes[node].dbh();
    let vk = c.w.nodes[node].vk.clone();
    c.w.nodes[node].run(async move { db.get_peer_node(vk).await.ok().flatten() }).map_err(|e| format!("{e:?}"))?.ok_or("no peer row".to_string())
}

/// the meeting token two nodes derive for each other (C19: symmetric, distinct between pairs)
fn meeting_token(c: &Ctx, a: usize, b: usize) -> [u8; 7] {
    let sa = c.w.nodes[a].meeting_secret();
    let pb = c.w.nodes[b].meeting_secret().public_key();
    sa.token(&pb)
}

fn open_conn(c: &mut Ctx, node: usize, token: [u8; 7], key_hint: Vec<u8>) -> Result<Option<Conn>, String> {
    let side = c.sides[node].as_ref().ok_or("side down")?;
    let tt = match side.pm.get_token_type(&token, &key_hint) {
        Ok(t) => t,
        Err(e) => {
            c.w.log.log(format!("n{node}: no token type: {e}"));
            return Ok(None);
        }
    };
    c.conn_no = c.conn_no.wrapping_add(1);
    let mut conn = Conn::open(&mut c.w.nodes[node], &side.host, tt, c.conn_no, key_hint);
    conn.info.meeting_token = token;
    c.w.nodes[node].settle().map_err(|e| format!("{e:?}"))?;
    Ok(Some(conn))
}

/// relay every stream between two real connection ends until both nodes are quiet
fn relay(c: &mut Ctx, a: usize, ca: &mut Conn, b: usize, cb: &mut Conn) -> Result<(), String> {
    for _round in 0..200 {
        let mut moved = false;
        for (src, dst, cs, cd) in [(a, b, &mut *ca, &mut *cb)] {
            let _ = (src, dst);
            for q in cs.take_queries() {
                moved = true;
                if let Some(tx) = cd.q_to_node.clone() {
                    let _ = c.w.nodes[b].run(async move { tx.send(q).await.is_ok() });
                }
            }
            while let Ok(ans) = cs.a_from_node.try_recv() {
                moved = true;
                if let Ok(ia) = bincode::deserialize::<dv::IdentityAnswer>(&ans.serialized) {
                    if ans.success && ia.peer.verifying_key == c.w.nodes[a].vk {
                        c.recorded.push((a, ia));
                    }
                }
                cd.answer(&mut c.w.nodes[b], ans).map_err(|e| format!("{e:?}"))?;
            }
            for e in cs.take_events() {
                moved = true;
                cd.send_event(&mut c.w.nodes[b], e).map_err(|e| format!("{e:?}"))?;
            }
        }
        for q in cb.take_queries() {
            moved = true;
            if let Some(tx) = ca.q_to_node.clone() {
                let _ = c.w.nodes[a].run(async move { tx.send(q).await.is_ok() });
            }
        }
        while let Ok(ans) = cb.a_from_node.try_recv() {
            moved = true;
            if let Ok(ia) = bincode::deserialize::<dv::IdentityAnswer>(&ans.serialized) {
                if ans.success && ia.peer.verifying_key == c.w.nodes[b].vk {
                    c.recorded.push((b, ia));
                }
            }
            ca.answer(&mut c.w.nodes[a], ans).map_err(|e| format!("{e:?}"))?;
        }
        for e in cb.take_events() {
            moved = true;
            ca.send_event(&mut c.w.nodes[a], e).map_err(|e| format!("{e:?}"))?;
        }
        pump(c, a)?;
        pump(c, b)?;
        if !moved {
            break;
        }
    }
    Ok(())
}

fn allowed_keys(c: &mut Ctx, node: usize) -> Result<Vec<Vec<u8>>, String> {
    let db = c.w.nodes[node].dbh();
    let room = c.w.nodes[node].private_room;
    let v = c.w.nodes[node].run(async move { db.get_allowed_peers(room).await.map_err(|e| e.to_string()) }).map_err(|e| format!("{e:?}"))??;
    Ok(v.iter().filter_map(|a| dv::base64_decode(a.peer.verifying_key.as_bytes()).ok()).collect())
}

fn exec_step(c: &mut Ctx, st: &Step, property: &str) -> Result<(), String> {
    let n = c.cfg.nodes;
    c.now += 1000;
    for nn in &mut c.w.nodes {
        nn.clock = c.now;
    }
    match st {
        Step::Invite { owner } => {
            let owner = *owner % n;
            let Some(side) = c.sides[owner].as_mut() else { return Ok(()) };
            let pm = &mut side.pm;
            let r = c.w.nodes[owner].drive(async { pm.create_invite(None).await }).map_err(|e| format!("{e:?}"))?;
            match r {
                Ok(bytes) => {
                    let inv: dv::Invite = bincode::deserialize(&bytes).map_err(|e| e.to_string())?;
                    c.invites.push((owner, bytes, inv.invite_id));
                    c.w.log.sched(format!("invite n{owner}"));
                }
                Err(e) => c.w.log.log(format!("create_invite failed: {e}")),
            }
        }
        Step::Accept { node, inv, tamper } => {
            let node = *node % n;
            if c.invites.is_empty() {
                return Ok(());
            }
            let (owner, bytes, _) = c.invites[*inv % c.invites.len()].clone();
            if owner == node {
                return Ok(());
            }
            let mut b = bytes.clone();
            match tamper % 5 {
                4 => {
                    // the same invitation, naming another application
                    if let Ok(mut inv) = bincode::deserialize::<dv::Invite>(&b) {
                        inv.application = format!("{} of somebody else", inv.application);
                        b = bincode::serialize(&inv).unwrap_or(b);
                    }
                }
                1 => b.truncate(b.len() / 2),
                2 => b = (0..b.len()).map(|i| (i * 37 + 11) as u8).collect(),
                3 => {
                    let k = b.len() / 2;
                    b[k] ^= 0x40;
                }
                _ => {}
            }
            let Some(side) = c.sides[node].as_mut() else { return Ok(()) };
            let pm = &mut side.pm;
            let r = c.w.nodes[node].drive(async { pm.accept_invite(&b).await }).map_err(|e| format!("{e:?}"))?;
            c.w.log.sched(format!("accept n{node} tamper={} ok={}", tamper % 5, r.is_ok()));
            c.w.fault(&format!("invite_bytes_tamper_{}", tamper % 5));
            if tamper % 5 == 4 && r.is_ok() {
                c.w.violation("C19", "invitation-accepted-for-another-application", format!("n{node} accepted an invitation that names another application"));
            }
            c.any = true;
        }
        Step::ConnectInvite { owner, invitee, inv } => {
            let (o, i) = (*owner % n, *invitee % n);
            if c.invites.is_empty() || o == i {
                return Ok(());
            }
            let (real_owner, _, invite_id) = c.invites[*inv % c.invites.len()].clone();
            if real_owner != o {
                return Ok(());
            }
            let token = dv::MeetingSecret::derive_token(DERIVE_STRING, &invite_id);
            let before_o = allowed_keys(c, o)?;
            let accepted_before = c.sides[o].as_ref().unwrap().host.notes.iter().filter(|x| matches!(x, PeerNote::InviteAccepted(k, _) if k == "owned-invite")).count();
            let Some(mut co) = open_conn(c, o, token, vec![])? else {
                c.w.log.sched(format!("connect-invite n{o}<->n{i}: owner has no such token"));
                return Ok(());
            };
            let Some(mut ci) = open_conn(c, i, token, vec![])? else {
                co.close();
                c.w.nodes[o].settle().map_err(|e| format!("{e:?}"))?;
                pump(c, o)?;
                c.w.log.sched(format!("connect-invite n{o}<->n{i}: invitee has no such token"));
                return Ok(());
            };
            relay(c, o, &mut co, i, &mut ci)?;
            let accepted_o = c.sides[o].as_ref().unwrap().host.notes.iter().filter(|x| matches!(x, PeerNote::InviteAccepted(k, _) if k == "owned-invite")).count();
            let after_o = allowed_keys(c, o)?;
            c.w.log.sched(format!("connect-invite n{o}<->n{i} owner_accepts={accepted_o} allowed {}->{}", before_o.len(), after_o.len()));
            c.any = true;
            // single use: count how many distinct peers this invitation admitted on the owner
            let uses = c.invite_uses.entry(invite_id).or_insert_with(Vec::new);
            let ikey = c.w.nodes[i].vk.clone();
            // a use = the owner accepted the invitation on this connection (whether or not the peer was already allowed)
            if (after_o.contains(&ikey) && !before_o.contains(&ikey)) || accepted_o > accepted_before {
                if !uses.contains(&i) {
                    uses.push(i);
                }
            }
            if uses.len() > 1 {
                c.w.violation("C19", "invite-reused", format!("the invitation created by n{o} admitted {} different peers: {:?}", uses.len(), uses));
            }
            co.close();
            ci.close();
            c.w.nodes[o].settle().map_err(|e| format!("{e:?}"))?;
            c.w.nodes[i].settle().map_err(|e| format!("{e:?}"))?;
            pump(c, o)?;
            pump(c, i)?;
        }
        Step::ConnectAllowed { a, b } => {
            let (a, b) = (*a % n, *b % n);
            if a == b {
                return Ok(());
            }
            let (ta, tb) = (meeting_token(c, a, b), meeting_token(c, b, a));
            if ta != tb {
                c.w.violation("C19", "token-asymmetric-or-colliding", format!("token(n{a},n{b}) != token(n{b},n{a})"));
            }
            let (ka, kb) = (c.w.nodes[a].vk.clone(), c.w.nodes[b].vk.clone());
            let Some(mut ca) = open_conn(c, a, ta, kb.clone())? else { return Ok(()) };
            let Some(mut cb) = open_conn(c, b, tb, ka.clone())? else {
                ca.close();
                c.w.nodes[a].settle().map_err(|e| format!("{e:?}"))?;
                pump(c, a)?;
                return Ok(());
            };
            relay(c, a, &mut ca, b, &mut cb)?;
            let bound_a = ca.bound_key(&mut c.w.nodes[a]);
            let bound_b = cb.bound_key(&mut c.w.nodes[b]);
            c.w.log.sched(format!("connect-allowed n{a}<->n{b} bound={} {}", bound_a == kb, bound_b == ka));
            if !bound_a.is_empty() && bound_a != kb {
                c.w.violation("C19", "trusted-without-proof/honest-peer:wrong-key-bound", format!("n{a} bound a key that is not n{b}'s"));
            }
            c.any = true;
            ca.close();
            cb.close();
            c.w.nodes[a].settle().map_err(|e| format!("{e:?}"))?;
            c.w.nodes[b].settle().map_err(|e| format!("{e:?}"))?;
            pump(c, a)?;
            pump(c, b)?;
        }
        Step::Attack { victim, adv, claims, use_invite, inv, behaviour } => {
            let (v, a, cl) = (*victim % n, *adv % n, *claims % n);
            if v == a || v == cl {
                return Ok(());
            }
            let beh = BEHAVIOURS[*behaviour % BEHAVIOURS.len()];
            let (token, hint, token_kind) = if *use_invite && !c.invites.is_empty() {
                let (owner, _, id) = c.invites[*inv % c.invites.len()].clone();
                if owner != v {
                    return Ok(());
                }
                (dv::MeetingSecret::derive_token(DERIVE_STRING, &id), vec![], "owned-invite")
            } else {
                (meeting_token(c, v, cl), c.w.nodes[cl].vk.clone(), "allowed-peer")
            };
            let allowed_before = allowed_keys(c, v)?;
            let notes_before = c.sides[v].as_ref().map(|s| s.host.notes.len()).unwrap_or(0);
            let Some(mut conn) = open_conn(c, v, token, hint.clone())? else {
                c.w.log.sched(format!("attack n{v} by n{a} as n{cl} {beh} {token_kind}: no token"));
                return Ok(());
            };
            c.any = true;
            // the victim's challenge
            let qs = conn.take_queries();
            let mut challenge: Option<(u64, Vec<u8>)> = None;
            for q in qs {
                if let SyncQuery::ProveIdentity(ch) = q.query {
                    challenge = Some((q.id, ch));
                }
            }
            let Some((qid, ch)) = challenge else {
                conn.close();
                return Err("victim sent no challenge".into());
            };
            let adv_key = c.w.nodes[a].signing_key();
            let adv_row = peer_row(c, a)?;
            // is the remote entitled? it must prove, on THIS challenge, the key expected for the token, with a key it holds
            let mut entitled = false;
            let answer: Option<Answer> = match beh {
                "honest-own-key" => {
                    let sig = dv::SigningKey::sign(&adv_key, &dv::IdentityAnswer::challenge_message(&ch));
                    entitled = token_kind == "owned-invite" || a == cl;
                    Some(ok_answer(qid, true, &dv::IdentityAnswer { peer: adv_row.clone(), chall_signature: sig }))
                }
                "wrong-key" => {
                    // claims the expected peer's row but signs with its own key
                    let row = if token_kind == "allowed-peer" { peer_row(c, cl)? } else { adv_row.clone() };
                    let mut other = [9u8; 32];
                    other[0] = a as u8;
                    let k = dv::Ed25519SigningKey::create_from(&other);
                    let sig = dv::SigningKey::sign(&k, &dv::IdentityAnswer::challenge_message(&ch));
                    Some(ok_answer(qid, true, &dv::IdentityAnswer { peer: row, chall_signature: sig }))
                }
                "replayed-answer-of-another-connection" => match c.recorded.iter().find(|(who, _)| *who == cl).map(|x| (x.1.peer.clone(), x.1.chall_signature.clone())) {
                    Some((peer, sig)) => Some(ok_answer(qid, true, &dv::IdentityAnswer { peer, chall_signature: sig })),
                    None => Some(err_answer(qid)),
                },
                "valid-proof-by-another-allowed-peer" => {
                    let sig = dv::SigningKey::sign(&adv_key, &dv::IdentityAnswer::challenge_message(&ch));
                    entitled = token_kind == "owned-invite";
                    Some(ok_answer(qid, true, &dv::IdentityAnswer { peer: adv_row.clone(), chall_signature: sig }))
                }
                "malformed-peer-row" => {
                    let mut row = adv_row.clone();
                    row._json = Some("[1,2,3]".into());
                    let sig = dv::SigningKey::sign(&adv_key, &dv::IdentityAnswer::challenge_message(&ch));
                    Some(ok_answer(qid, true, &dv::IdentityAnswer { peer: row, chall_signature: sig }))
                }
                "signature-over-other-bytes" => {
                    let sig = dv::SigningKey::sign(&adv_key, b"not the challenge");
                    let row = if token_kind == "allowed-peer" { peer_row(c, cl)? } else { adv_row.clone() };
                    Some(ok_answer(qid, true, &dv::IdentityAnswer { peer: row, chall_signature: sig }))
                }
                _ => None,
            };
            if beh == "valid-proof-by-another-allowed-peer" && a == cl {
                entitled = true;
            }
            match (beh, answer) {
                ("answer-after-timeout", _) => {
                    c.w.nodes[v].advance_timers(std::time::Duration::from_secs(dv::NETWORK_TIMEOUT_SEC + 1)).map_err(|e| format!("{e:?}"))?;
                    c.w.fault("stall_timeout");
                    let sig = dv::SigningKey::sign(&adv_key, &dv::IdentityAnswer::challenge_message(&ch));
                    entitled = false;
                    conn.answer(&mut c.w.nodes[v], ok_answer(qid, true, &dv::IdentityAnswer { peer: adv_row.clone(), chall_signature: sig })).map_err(|e| format!("{e:?}"))?;
                }
                ("no-answer", _) => {
                    c.w.nodes[v].advance_timers(std::time::Duration::from_secs(dv::NETWORK_TIMEOUT_SEC + 1)).map_err(|e| format!("{e:?}"))?;
                    c.w.fault("stall_timeout");
                }
                (_, Some(ans)) => {
                    conn.answer(&mut c.w.nodes[v], ans).map_err(|e| format!("{e:?}"))?;
                }
                _ => {}
            }
            c.w.fault(&format!("byz_{beh}"));
            c.w.nodes[v].settle().map_err(|e| format!("{e:?}"))?;
            // after a (claimed) success the remote also says it is ready and asks for rooms
            let evs = conn.take_events();
            let said_ready = evs.iter().any(|e| matches!(e, RemoteEvent::Ready | RemoteEvent::ReadyFingerprint));
            let bound = conn.bound_key(&mut c.w.nodes[v]);
            let answers = conn.ask(&mut c.w.nodes[v], SyncQuery::RoomList).map_err(|e| format!("{e:?}"))?;
            let served = answers.iter().any(|x| x.success && x.serialized.len() > 8);
            pump(c, v)?;
            let notes: Vec<PeerNote> = c.sides[v].as_ref().map(|s| s.host.notes[notes_before..].to_vec()).unwrap_or_default();
            let connected = notes.iter().any(|x| matches!(x, PeerNote::Connected(_, _)));
            let invited = notes.iter().any(|x| matches!(x, PeerNote::InviteAccepted(_, _)));
            let disconnected = notes.iter().any(|x| matches!(x, PeerNote::Disconnected(_, _, _)));
            let allowed_after = allowed_keys(c, v)?;
            let new_allowed = allowed_after.len() > allowed_before.len();
            c.w.log.sched(format!(
                "attack n{v} by n{a} as n{cl} {beh} {token_kind} entitled={entitled} bound={} ready={said_ready} connected={connected} invited={invited} served={served} disc={disconnected}",
                !bound.is_empty()
            ));
            c.w.probe(&format!("attack_{beh}_{token_kind}"));
            if !entitled {
                let mut what = vec![];
                if !bound.is_empty() {
                    what.push("key-bound");
                }
                if said_ready {
                    what.push("ready-sent");
                }
                if connected {
                    what.push("reported-connected");
                }
                if invited || new_allowed {
                    what.push("invitation-consumed");
                }
                if served {
                    what.push("rooms-served");
                }
                if !what.is_empty() {
                    c.w.violation("C19", &format!("trusted-without-proof/{beh}:{token_kind}"), format!("n{v} treated the connection as a trusted peer ({}) although the remote end did not prove the expected key on this connection's challenge", what.join(", ")));
                } else if !disconnected {
                    c.w.probe("c19_no_disconnect_note");
                }
            } else if token_kind == "owned-invite" {
                let (_, _, id) = c.invites[*inv % c.invites.len()].clone();
                let uses = c.invite_uses.entry(id).or_insert_with(Vec::new);
                let akey = c.w.nodes[a].vk.clone();
                if allowed_after.contains(&akey) && !allowed_before.contains(&akey) {
                    uses.push(a);
                }
                if uses.len() > 1 {
                    c.w.violation("C19", "invite-reused", format!("the invitation created by n{v} admitted {} different peers: {:?}", uses.len(), uses));
                }
            }
            conn.close();
            c.w.nodes[v].settle().map_err(|e| format!("{e:?}"))?;
            pump(c, v)?;
        }
        Step::Restart { node } => {
            let node = *node % n;
            c.sides[node] = None;
            let left = c.w.nodes[node].stop();
            if left != 0 {
                return Err(format!("{left} threads left"));
            }
            c.w.nodes[node].start().map_err(|e| format!("restart: {e}"))?;
            let _ = c.w.nodes[node].drain_events();
            c.sides[node] = Some(make_side(&mut c.w.nodes[node], 2)?);
            c.w.fault("restart");
            c.w.log.sched(format!("restart n{node}"));
        }
        Step::LockLeak { victim, how } => {
            let _ = property;
            lock_leak(c, *victim % n, *how % 3)?;
        }
    }
    Ok(())
}

/// C20 with the real connection loop: the remote (simulator) proves its identity as an allowed peer, says it is
/// ready, answers the room list, and disappears at a chosen point. Afterwards a probe client of the same real lock
/// service must obtain every room within a bounded number of steps.
fn lock_leak(c: &mut Ctx, v: usize, how: usize) -> Result<(), String> {
    let n = c.cfg.nodes;
    let a = (v + 1) % n;
    // make `a` an allowed peer of v through an honest invitation if it is not yet
    let ka = c.w.nodes[a].vk.clone();
    if !allowed_keys(c, v)?.contains(&ka) {
        exec_step(c, &Step::Invite { owner: v }, "C20")?;
        let inv = c.invites.len() - 1;
        exec_step(c, &Step::Accept { node: a, inv, tamper: 0 }, "C20")?;
        exec_step(c, &Step::ConnectInvite { owner: v, invitee: a, inv }, "C20")?;
    }
    if !allowed_keys(c, v)?.contains(&ka) {
        return Ok(());
    }
    let token = meeting_token(c, v, a);
    let Some(mut conn) = open_conn(c, v, token, ka.clone())? else { return Ok(()) };
    c.any = true;
    let mut challenge = None;
    for q in conn.take_queries() {
        if let SyncQuery::ProveIdentity(ch) = q.query {
            challenge = Some((q.id, ch));
        }
    }
    let Some((qid, ch)) = challenge else { return Err("no challenge".into()) };
    let key = c.w.nodes[a].signing_key();
    let row = peer_row(c, a)?;
    let sig = dv::SigningKey::sign(&key, &dv::IdentityAnswer::challenge_message(&ch));
    conn.answer(&mut c.w.nodes[v], ok_answer(qid, true, &dv::IdentityAnswer { peer: row, chall_signature: sig })).map_err(|e| format!("{e:?}"))?;
    conn.send_event(&mut c.w.nodes[v], RemoteEvent::Ready).map_err(|e| format!("{e:?}"))?;
    c.w.nodes[v].settle().map_err(|e| format!("{e:?}"))?;
    let rooms: VecDeque<Uid> = c.rooms[v].iter().cloned().collect();
    let mut roomlist_q = None;
    for q in conn.take_queries() {
        if let SyncQuery::RoomList = q.query {
            roomlist_q = Some(q.id);
        }
    }
    let Some(rq) = roomlist_q else {
        conn.close();
        return Ok(());
    };
    match how {
        0 => {
            // the event stream closes first, then the room list answer arrives: grants may be waiting when the loop exits
            conn.ev_to_node = None;
            conn.answer(&mut c.w.nodes[v], ok_answer(rq, false, &rooms)).map_err(|e| format!("{e:?}"))?;
            conn.answer(&mut c.w.nodes[v], ok_answer(rq, true, &"")).map_err(|e| format!("{e:?}"))?;
            c.w.fault("cut_before_room_list_answer");
        }
        1 => {
            // room list answered, pulls start (their requests are never answered), then everything closes
            conn.answer(&mut c.w.nodes[v], ok_answer(rq, false, &rooms)).map_err(|e| format!("{e:?}"))?;
            conn.answer(&mut c.w.nodes[v], ok_answer(rq, true, &"")).map_err(|e| format!("{e:?}"))?;
            c.w.nodes[v].settle().map_err(|e| format!("{e:?}"))?;
            c.w.fault("cut_during_pull");
        }
        _ => {
            // the answer and the close race: the close is issued right after the answer without letting the loop run
            if let Some(tx) = conn.a_to_node.clone() {
                let a1 = ok_answer(rq, false, &rooms);
                let a2 = ok_answer(rq, true, &"");
                let _ = tx.try_send(a1);
                let _ = tx.try_send(a2);
            }
            c.w.fault("cut_right_after_room_list_answer");
        }
    }
    conn.close();
    c.w.nodes[v].settle().map_err(|e| format!("{e:?}"))?;
    // pulls waiting for an answer end with the timeout
    c.w.nodes[v].advance_timers(std::time::Duration::from_secs(dv::NETWORK_TIMEOUT_SEC + 1)).map_err(|e| format!("{e:?}"))?;
    pump(c, v)?;
    c.w.nodes[v].advance_timers(std::time::Duration::from_secs(dv::NETWORK_TIMEOUT_SEC + 1)).map_err(|e| format!("{e:?}"))?;
    pump(c, v)?;
    // probe: a new client of the same lock service wants every room
    let lock = c.sides[v].as_ref().unwrap().host.lock.clone();
    let (tx, mut rx) = mpsc::unbounded_channel::<Uid>();
    let mut circuit = [0xEEu8; 32];
    circuit[0] = c.conn_no;
    let want: VecDeque<Uid> = c.rooms[v].iter().cloned().collect();
    let l2 = lock.clone();
    c.w.nodes[v].run(async move { l2.request_locks(circuit, want, tx).await }).map_err(|e| format!("{e:?}"))?;
    let mut got: Vec<Uid> = vec![];
    for _ in 0..(c.rooms[v].len() * 2 + 2) {
        c.w.nodes[v].settle().map_err(|e| format!("{e:?}"))?;
        while let Ok(r) = rx.try_recv() {
            got.push(r);
            let l3 = lock.clone();
            c.w.nodes[v].run(async move { l3.unlock(r).await }).map_err(|e| format!("{e:?}"))?;
        }
    }
    c.w.log.sched(format!("lock-leak how={how} probe got {}/{}", got.len(), c.rooms[v].len()));
    c.w.probe(&format!("lock_probe_exit_path_{how}"));
    if got.len() < c.rooms[v].len() {
        c.w.violation(
            "C20",
            &format!("lock-leaked-after-connection-end/exit-path-{how}"),
            format!("after the connection of n{v} ended, a new connection obtained {}/{} rooms: a room stays locked by the connection that ended", got.len(), c.rooms[v].len()),
        );
    }
    Ok(())
}
