//! Engine `serve` (C08): an honest server V with several rooms, a requester M (authenticated key) whose
//! membership differs per room and changes over time, talking to V's REAL connection services
//! (InboundQueryService, LocalPeerService handshake and event loop). Every answer V emits is decoded and must
//! only carry data of rooms M is a member of at V's current date; nothing but the identity answer before the proof.
use crate::conn::{err_answer, ok_answer, Conn, Host};
use crate::kit::{Rng, DAY_MS, T0};
use crate::node::SimNode;
use crate::oracle;
use crate::world::{Trace, World};
use discret::verif as dv;
use discret::verif::{Answer, RemoteEvent, SyncQuery, Uid};
use serde::{Deserialize, Serialize};
use std::collections::VecDeque;

pub const MODEL: &str = "{
    Person{ name:String, parents:[Person] }
    Pet{ name:String }
}";

/// membership of M in a room when the run starts
pub const CLASSES: [&str; 5] = ["member", "former-member", "never-member", "admin-only", "user-admin-only"];
pub const KINDS: [&str; 11] = [
    "RoomList", "RoomDefinition", "RoomNode", "RoomLog", "RoomLogAt", "EdgeDeletionLog", "NodeDeletionLog", "RoomDailyNodes", "Nodes", "Edges", "PeersForRoom",
];

#[derive(Clone, Debug, Serialize, Deserialize)]
pub struct Cfg {
    /// class of M in each room
    pub rooms: Vec<usize>,
}

#[derive(Clone, Debug, Serialize, Deserialize)]
#[serde(tag = "t")]
pub enum Step {
    Connect,
    /// M proves its identity (answers V's challenge with its own key)
    Auth,
    /// M tells V it is ready (V then asks M's room list; M answers with nothing)
    RemoteReady,
    /// a request of M to V; `ids_from` = room whose row ids are named in Nodes/Edges requests
    Ask { kind: usize, room: usize, ids_from: usize },
    /// V changes a room: 0 disable M as user, 1 enable M as user, 2 disable M as admin, 3 add M as user of a room it was never in
    RoomChange { room: usize, what: usize, dt: i64 },
    /// V writes a row in a room (data-changed notifications flow to the connection)
    Write { room: usize, dt: i64 },
}

struct RoomS {
    uid: Uid,
    id: String,
    group: String,
    rows: Vec<Uid>,
    /// the history of M in this room as scripted (the oracle does not ask the code under test what a member is):
    /// last entry of M as a user, as an admin, as a user admin
    user_on: Option<bool>,
    admin_on: Option<bool>,
    uadmin_on: Option<bool>,
}

struct Ctx {
    w: World,
    cfg: Cfg,
    rooms: Vec<RoomS>,
    host: Option<Host>,
    conn: Option<Conn>,
    authed: bool,
    now: i64,
    asked: u64,
}

pub fn generate(seed: u64, property: &str, thorough: bool) -> Trace {
    let mut rc = Rng::stream(seed, "config");
    let mut rw = Rng::stream(seed, "workload");
    let nrooms = 2 + rc.usize(3);
    let cfg = Cfg { rooms: (0..nrooms).map(|_| rc.usize(CLASSES.len())).collect() };
    let mut steps = vec![Step::Connect];
    // some requests before authentication
    for _ in 0..rw.usize(4) {
        steps.push(Step::Ask { kind: rw.usize(KINDS.len()), room: rw.usize(nrooms), ids_from: rw.usize(nrooms) });
    }
    steps.push(Step::Auth);
    if rw.chance(2, 3) {
        steps.push(Step::RemoteReady);
    }
    let n = if thorough { 20 + rw.usize(30) } else { 8 + rw.usize(16) };
    for _ in 0..n {
        match rw.weighted(&[70, 15, 10, 5]) {
            0 => steps.push(Step::Ask { kind: rw.usize(KINDS.len()), room: rw.usize(nrooms), ids_from: rw.usize(nrooms) }),
            1 => steps.push(Step::RoomChange { room: rw.usize(nrooms), what: rw.usize(4), dt: *rw.pick(&[1000i64, 3_600_000, DAY_MS]) }),
            2 => steps.push(Step::Write { room: rw.usize(nrooms), dt: *rw.pick(&[1000i64, DAY_MS]) }),
            _ => steps.push(Step::Ask { kind: 0, room: 0, ids_from: 0 }),
        }
    }
    Trace {
        engine: "serve".into(),
        property: property.into(),
        seed,
        cfg: serde_json::to_value(&cfg).unwrap(),
        steps: steps.iter().map(|s| serde_json::to_value(s).unwrap()).collect(),
        expect_fingerprint: None,
        note: None,
    }
}

pub fn directed(property: &str) -> Vec<Trace> {
    let mk = |name: &str, rooms: Vec<usize>, steps: Vec<Step>| Trace {
        engine: "serve".into(),
        property: property.into(),
        seed: 0,
        cfg: serde_json::to_value(&Cfg { rooms }).unwrap(),
        steps: steps.iter().map(|s| serde_json::to_value(s).unwrap()).collect(),
        expect_fingerprint: None,
        note: Some(name.to_string()),
    };
    let all_kinds = |room: usize, ids_from: usize| -> Vec<Step> { (0..KINDS.len()).map(|k| Step::Ask { kind: k, room, ids_from }).collect() };
    let mut out = vec![];
    // every request kind before the identity proof
    let mut s = vec![Step::Connect];
    s.extend(all_kinds(0, 0));
    out.push(mk("C08 every request kind before the identity proof", vec![0, 2], s));
    // member disabled while connected, then asks for the room it left
    let mut s = vec![Step::Connect, Step::Auth, Step::RemoteReady, Step::Ask { kind: 0, room: 0, ids_from: 0 }];
    s.push(Step::RoomChange { room: 0, what: 0, dt: DAY_MS });
    s.extend(all_kinds(0, 0));
    out.push(mk("C08 member disabled while connected asks for the room it left", vec![0, 2], s));
    // former member connecting after it was disabled
    let mut s = vec![Step::Connect, Step::Auth, Step::RemoteReady, Step::Ask { kind: 0, room: 0, ids_from: 0 }];
    s.extend(all_kinds(1, 1));
    out.push(mk("C08 former member asks for the room it was disabled in", vec![0, 1], s));
    // member names rows of another room inside an allowed room's request
    let mut s = vec![Step::Connect, Step::Auth, Step::RemoteReady, Step::Ask { kind: 0, room: 0, ids_from: 0 }];
    s.push(Step::Ask { kind: 8, room: 0, ids_from: 1 });
    s.push(Step::Ask { kind: 9, room: 0, ids_from: 1 });
    s.extend(all_kinds(1, 1));
    out.push(mk("C08 member names rows of a room it never belonged to", vec![0, 2], s));
    out
}

pub fn execute(trace: &Trace, keep_log: bool) -> (crate::kit::RunReport, Vec<String>) {
    let cfg: Cfg = serde_json::from_value(trace.cfg.clone()).expect("bad serve cfg");
    let steps: Vec<Step> = trace.steps.iter().filter_map(|s| serde_json::from_value(s.clone()).ok()).collect();
    let w = World::new("serve", trace.seed, keep_log);
    let mut c = Ctx { w, cfg, rooms: vec![], host: None, conn: None, authed: false, now: T0, asked: 0 };
    if let Err(e) = setup(&mut c) {
        c.w.harness_error(format!("setup: {e}"));
        return c.w.finish();
    }
    for (i, st) in steps.iter().enumerate() {
        c.w.step_no = i + 1;
        if let Err(e) = exec_step(&mut c, st) {
            c.w.harness_error(format!("step {i} {st:?}: {e}"));
            break;
        }
    }
    if let Some(mut conn) = c.conn.take() {
        conn.close();
    }
    c.host = None;
    c.w.report.nontrivial = c.asked > 0;
    c.w.finish()
}

fn clocks(c: &mut Ctx) {
    for n in &mut c.w.nodes {
        n.clock = c.now;
    }
}

fn setup(c: &mut Ctx) -> Result<(), String> {
    let seed = c.w.report.seed;
    for i in 0..2 {
        let mut conf = dv::Configuration::default();
        conf.parallelism = 1;
        let mut n = SimNode::new(i, &format!("n{i}"), (10 + i * 40) as u8, &c.w.root, MODEL, conf, T0, seed + i as u64);
        n.start()?;
        c.w.nodes.push(n);
    }
    let kv = dv::base64_encode(&c.w.nodes[0].vk);
    let km = dv::base64_encode(&c.w.nodes[1].vk);
    for (r, class) in c.cfg.rooms.clone().iter().enumerate() {
        c.now += 50;
        clocks(c);
        let (admins, users, uadm) = match CLASSES[*class % CLASSES.len()] {
            "member" | "former-member" => (format!("{{verif_key:\"{kv}\"}}"), format!("{{verif_key:\"{kv}\"}},{{verif_key:\"{km}\"}}"), String::new()),
            "admin-only" => (format!("{{verif_key:\"{kv}\"}},{{verif_key:\"{km}\"}}"), format!("{{verif_key:\"{kv}\"}}"), String::new()),
            "user-admin-only" => (format!("{{verif_key:\"{kv}\"}}"), format!("{{verif_key:\"{kv}\"}}"), format!("user_admin:[{{verif_key:\"{km}\"}}]")),
            _ => (format!("{{verif_key:\"{kv}\"}}"), format!("{{verif_key:\"{kv}\"}}"), String::new()),
        };
        let q = format!(
            r#"mutate {{ sys.Room{{ admin:[{admins}] authorisations:[{{ name:"g" rights:[{{entity:"*" mutate_self:true mutate_all:true}}] users:[{users}] {uadm} }}] }} }}"#
        );
        let res = c.w.nodes[0].mutate(&q, None)?;
        let v: serde_json::Value = serde_json::from_str(&res).map_err(|e| e.to_string())?;
        let id = v["sys.Room"]["id"].as_str().ok_or("no room id")?.to_string();
        let group = v["sys.Room"]["authorisations"][0]["id"].as_str().unwrap_or("").to_string();
        let uid = dv::uid_decode(&id).map_err(|e| e.to_string())?;
        // data: two persons with a reference, a pet, and a deleted row
        c.now += 1000;
        clocks(c);
        let mut rows = vec![];
        let p = serde_json::json!({"r": id, "a": format!("room{r} alice"), "b": format!("room{r} bob")}).to_string();
        let res = c.w.nodes[0].mutate("mutate { Person{ room_id:$r name:$a parents:[{name:$b}] } }", Some(&p))?;
        let v: serde_json::Value = serde_json::from_str(&res).map_err(|e| e.to_string())?;
        if let Some(i) = v["Person"]["id"].as_str() {
            rows.push(dv::uid_decode(i).map_err(|e| e.to_string())?);
        }
        let p = serde_json::json!({"r": id, "a": format!("room{r} rex")}).to_string();
        let res = c.w.nodes[0].mutate("mutate { Pet{ room_id:$r name:$a } }", Some(&p))?;
        let v: serde_json::Value = serde_json::from_str(&res).map_err(|e| e.to_string())?;
        let pet = v["Pet"]["id"].as_str().unwrap_or("").to_string();
        let p = serde_json::json!({"r": id, "a": format!("room{r} gone")}).to_string();
        let res = c.w.nodes[0].mutate("mutate { Pet{ room_id:$r name:$a } }", Some(&p))?;
        let v: serde_json::Value = serde_json::from_str(&res).map_err(|e| e.to_string())?;
        let gone = v["Pet"]["id"].as_str().unwrap_or("").to_string();
        c.w.nodes[0].delete("delete { Pet{ $id } }", Some(&serde_json::json!({"id": gone}).to_string()))?;
        if let Ok(u) = dv::uid_decode(&pet) {
            rows.push(u);
        }
        let _ = c.w.nodes[0].drain_events();
        let cl = CLASSES[*class % CLASSES.len()];
        c.rooms.push(RoomS {
            uid,
            id: id.clone(),
            group: group.clone(),
            rows,
            user_on: if cl == "member" || cl == "former-member" { Some(true) } else { None },
            admin_on: if cl == "admin-only" { Some(true) } else { None },
            uadmin_on: if cl == "user-admin-only" { Some(true) } else { None },
        });
        if cl == "former-member" {
            c.now += 1000;
            clocks(c);
            let q = format!(r#"mutate {{ sys.Room{{ id:"{id}" authorisations:[{{ id:"{group}" users:[{{verif_key:"{km}" enabled:false}}] }}] }} }}"#);
            c.w.nodes[0].mutate(&q, None)?;
            c.rooms[r].user_on = Some(false);
        }
    }
    c.now += DAY_MS;
    clocks(c);
    let _ = c.w.nodes[0].drain_events();
    c.host = Some(Host::new(&c.w.nodes[0], 2));
    Ok(())
}

/// is M a member of the room at V's current date, by V's own in-memory room (Room semantics are C10's subject)
fn member_now(c: &mut Ctx, room: usize) -> Result<bool, String> {
    let auth = c.w.nodes[0].dbh().auth.clone();
    let uid = c.rooms[room].uid;
    let key = c.w.nodes[1].vk.clone();
    let now = c.now;
    c.w.nodes[0]
        .run(async move {
            let (tx, rx) = tokio::sync::oneshot::channel();
            let _ = auth.send(dv::AuthorisationMessage::VerifGetRoom(uid, tx)).await;
            match rx.await.ok().flatten() {
                Some(r) => r.is_user_valid_at(&key, now),
                None => false,
            }
        })
        .map_err(|e| format!("{e:?}"))
}

/// membership by the scripted history: M is a member while its last entry as user, admin or user admin is enabled
fn member_by_history(c: &Ctx, room: usize) -> bool {
    let r = &c.rooms[room];
    r.user_on == Some(true) || r.admin_on == Some(true) || r.uadmin_on == Some(true)
}

fn class_now(c: &mut Ctx, room: usize) -> Result<String, String> {
    let by_code = member_now(c, room)?;
    let by_history = member_by_history(c, room);
    if by_code != by_history {
        // what a room means is C10's subject; here the history decides who may be served
        c.w.probe("membership_by_code_differs_from_history");
    }
    if by_history {
        return Ok("member".into());
    }
    let r = &c.rooms[room];
    if r.user_on.is_some() || r.admin_on.is_some() || r.uadmin_on.is_some() {
        return Ok("former-member".into());
    }
    // was it ever a member?
    let auth = c.w.nodes[0].dbh().auth.clone();
    let uid = c.rooms[room].uid;
    let key = c.w.nodes[1].vk.clone();
    let ever = c.w.nodes[0]
        .run(async move {
            let (tx, rx) = tokio::sync::oneshot::channel();
            let _ = auth.send(dv::AuthorisationMessage::VerifGetRoom(uid, tx)).await;
            match rx.await.ok().flatten() {
                Some(r) => r.has_user(&key),
                None => false,
            }
        })
        .map_err(|e| format!("{e:?}"))?;
    Ok(if ever { "former-member".into() } else { "never-member".into() })
}

fn pump(c: &mut Ctx) -> Result<(), String> {
    let host = c.host.as_mut().unwrap();
    for _ in 0..4 {
        if !host.pump(&mut c.w.nodes[0]).map_err(|e| format!("{e:?}"))? {
            break;
        }
    }
    // M answers V's own requests: identity challenges are kept for the Auth step, everything else is refused
    if let Some(conn) = c.conn.as_mut() {
        let qs = conn.take_queries();
        for q in qs {
            match q.query {
                SyncQuery::ProveIdentity(_) => {
                    // kept: re-queue by storing in a side list
                    c.w.log.log("V asks ProveIdentity");
                    PENDING_CHALLENGE.with(|p| p.borrow_mut().push(q));
                }
                SyncQuery::RoomList => {
                    let empty: VecDeque<Uid> = VecDeque::new();
                    conn.answer(&mut c.w.nodes[0], ok_answer(q.id, false, &empty)).map_err(|e| format!("{e:?}"))?;
                    conn.answer(&mut c.w.nodes[0], ok_answer(q.id, true, &"")).map_err(|e| format!("{e:?}"))?;
                }
                _ => {
                    conn.answer(&mut c.w.nodes[0], err_answer(q.id)).map_err(|e| format!("{e:?}"))?;
                }
            }
        }
        let _ = conn.take_events();
    }
    Ok(())
}

thread_local! {
    static PENDING_CHALLENGE: std::cell::RefCell<Vec<dv::QueryProtocol>> = const { std::cell::RefCell::new(Vec::new()) };
}

fn exec_step(c: &mut Ctx, st: &Step) -> Result<(), String> {
    match st {
        Step::Connect => {
            if c.conn.is_some() {
                return Ok(());
            }
            PENDING_CHALLENGE.with(|p| p.borrow_mut().clear());
            let km = dv::base64_encode(&c.w.nodes[1].vk);
            let token = dv::TokenType::AllowedPeer(dv::AllowedPeer { peer: dv::Peer { id: "peer".into(), verifying_key: km }, meeting_token: "token".into() });
            let key_hint = c.w.nodes[1].vk.clone();
            let conn = Conn::open(&mut c.w.nodes[0], c.host.as_ref().unwrap(), token, 1, key_hint);
            c.conn = Some(conn);
            c.w.nodes[0].settle().map_err(|e| format!("{e:?}"))?;
            c.w.log.sched("connect");
            pump(c)?;
        }
        Step::Auth => {
            if c.conn.is_none() || c.authed {
                return Ok(());
            }
            pump(c)?;
            let chall = PENDING_CHALLENGE.with(|p| p.borrow_mut().pop());
            let Some(q) = chall else { return Ok(()) };
            let SyncQuery::ProveIdentity(ch) = q.query else { return Ok(()) };
            // M's own instance signs the challenge and gives its peer row
            let mdb = c.w.nodes[1].dbh();
            let mvk = c.w.nodes[1].vk.clone();
            let (sig, peer) = c.w.nodes[1]
                .run(async move {
                    let s = mdb.sign(dv::IdentityAnswer::challenge_message(&ch)).await;
                    let p = mdb.get_peer_node(mvk).await.ok().flatten();
                    (s.1, p)
                })
                .map_err(|e| format!("{e:?}"))?;
            let Some(peer) = peer else { return Err("M has no peer row".into()) };
            let ans = dv::IdentityAnswer { peer, chall_signature: sig };
            let conn = c.conn.as_mut().unwrap();
            conn.answer(&mut c.w.nodes[0], ok_answer(q.id, true, &ans)).map_err(|e| format!("{e:?}"))?;
            c.w.nodes[0].settle().map_err(|e| format!("{e:?}"))?;
            let bound = conn.bound_key(&mut c.w.nodes[0]);
            c.authed = bound == c.w.nodes[1].vk;
            c.w.log.sched(format!("auth bound={}", c.authed));
            pump(c)?;
        }
        Step::RemoteReady => {
            let Some(conn) = c.conn.as_mut() else { return Ok(()) };
            conn.send_event(&mut c.w.nodes[0], RemoteEvent::Ready).map_err(|e| format!("{e:?}"))?;
            c.w.log.sched("remote-ready");
            pump(c)?;
        }
        Step::Ask { kind, room, ids_from } => {
            if c.conn.is_none() {
                return Ok(());
            }
            let (kind, room, ids_from) = (*kind % KINDS.len(), *room % c.rooms.len(), *ids_from % c.rooms.len());
            pump(c)?;
            let uid = c.rooms[room].uid;
            let day = crate::kit::day_of(T0);
            let ids = c.rooms[ids_from].rows.clone();
            let q = match KINDS[kind] {
                "RoomList" => SyncQuery::RoomList,
                "RoomDefinition" => SyncQuery::RoomDefinition(uid),
                "RoomNode" => SyncQuery::RoomNode(uid),
                "RoomLog" => SyncQuery::RoomLog(uid),
                "RoomLogAt" => SyncQuery::RoomLogAt(uid, day),
                "EdgeDeletionLog" => SyncQuery::EdgeDeletionLog(uid, "0".into(), day),
                "NodeDeletionLog" => SyncQuery::NodeDeletionLog(uid, "1".into(), day),
                "RoomDailyNodes" => SyncQuery::RoomDailyNodes(uid, "0".into(), day),
                "Nodes" => SyncQuery::Nodes(uid, ids.clone()),
                "Edges" => SyncQuery::Edges(uid, ids.iter().map(|i| (*i, 0i64)).collect()),
                _ => SyncQuery::PeersForRoom(uid),
            };
            let member = member_by_history(c, room);
            let class = class_now(c, room)?;
            let conn = c.conn.as_mut().unwrap();
            let answers = conn.ask(&mut c.w.nodes[0], q).map_err(|e| format!("{e:?}"))?;
            c.asked += 1;
            c.w.log.sched(format!("ask {} class={class} authed={} answers={}", KINDS[kind], c.authed, answers.len()));
            c.w.probe(&format!("ask_{}_{}", KINDS[kind], if c.authed { class.as_str() } else { "before-auth" }));
            judge(c, KINDS[kind], room, ids_from, member, &class, &answers)?;
        }
        Step::RoomChange { room, what, dt } => {
            let room = *room % c.rooms.len();
            c.now += dt.max(&1000);
            clocks(c);
            let km = dv::base64_encode(&c.w.nodes[1].vk);
            let (id, group) = (c.rooms[room].id.clone(), c.rooms[room].group.clone());
            let q = match what % 4 {
                0 => format!(r#"mutate {{ sys.Room{{ id:"{id}" authorisations:[{{ id:"{group}" users:[{{verif_key:"{km}" enabled:false}}] }}] }} }}"#),
                1 | 3 => format!(r#"mutate {{ sys.Room{{ id:"{id}" authorisations:[{{ id:"{group}" users:[{{verif_key:"{km}" enabled:true}}] }}] }} }}"#),
                _ => format!(r#"mutate {{ sys.Room{{ id:"{id}" admin:[{{verif_key:"{km}" enabled:false}}] }} }}"#),
            };
            let r = c.w.nodes[0].mutate(&q, None);
            if r.is_ok() {
                match what % 4 {
                    0 => c.rooms[room].user_on = Some(false),
                    1 | 3 => c.rooms[room].user_on = Some(true),
                    _ => c.rooms[room].admin_on = Some(false),
                }
            }
            c.w.log.sched(format!("room-change {} ok={}", what % 4, r.is_ok()));
            c.w.fault("membership_change_while_connected");
            pump(c)?;
        }
        Step::Write { room, dt } => {
            let room = *room % c.rooms.len();
            c.now += dt.max(&1);
            clocks(c);
            let p = serde_json::json!({"r": c.rooms[room].id, "a": format!("late {}", c.now)}).to_string();
            let _ = c.w.nodes[0].mutate("mutate { Pet{ room_id:$r name:$a } }", Some(&p));
            c.w.log.sched("write");
            pump(c)?;
        }
    }
    Ok(())
}

/// does the payload of a successful answer carry anything?
fn carries_data(kind: &str, a: &Answer) -> bool {
    if !a.success {
        return false;
    }
    match kind {
        "RoomDefinition" => bincode::deserialize::<Option<dv::RoomDefinitionLog>>(&a.serialized).map(|x| x.is_some()).unwrap_or(a.serialized.len() > 8),
        "RoomNode" => bincode::deserialize::<Option<dv::RoomNode>>(&a.serialized).map(|x| x.is_some()).unwrap_or(a.serialized.len() > 8),
        // list-like payloads: an empty list or the closing empty string serialise to 8 bytes
        _ => a.serialized.len() > 8,
    }
}

fn judge(c: &mut Ctx, kind: &str, room: usize, ids_from: usize, member: bool, class: &str, answers: &[Answer]) -> Result<(), String> {
    let any_data = answers.iter().any(|a| carries_data(kind, a));
    if !c.authed {
        if any_data {
            c.w.violation("C08", &format!("served-before-auth/{kind}"), format!("V answered {kind} with data before the requester proved its identity"));
        }
        return Ok(());
    }
    if kind == "RoomList" {
        for a in answers.iter().filter(|a| a.success && a.serialized.len() > 8) {
            if let Ok(list) = bincode::deserialize::<VecDeque<Uid>>(&a.serialized) {
                for uid in list {
                    if let Some(r) = c.rooms.iter().position(|x| x.uid == uid) {
                        if !member_by_history(c, r) {
                            let cl = class_now(c, r)?;
                            c.w.violation("C08", &format!("served-non-member/RoomList:{cl}"), format!("the room list given to M names room{r} of which M is not a member ({cl})"));
                        }
                    }
                }
            }
        }
        return Ok(());
    }
    if !member {
        if any_data {
            c.w.violation("C08", &format!("served-non-member/{kind}:{class}"), format!("V served {kind} of room{room} to M, which is not a member of it now ({class})"));
        }
        return Ok(());
    }
    // member of the requested room: rows named from another room must not come back
    if ids_from != room {
        let other_class = class_now(c, ids_from)?;
        match kind {
            "Nodes" => {
                for a in answers.iter().filter(|a| a.success && a.serialized.len() > 8) {
                    if let Ok(nodes) = bincode::deserialize::<Vec<dv::Node>>(&a.serialized) {
                        for n in nodes {
                            if n.room_id != Some(c.rooms[room].uid) {
                                c.w.violation("C08", &format!("served-other-room-row/Nodes:{other_class}"), format!("Nodes(room{room}, ids of room{ids_from}) returned a row of another room"));
                            }
                        }
                    }
                }
            }
            "Edges" => {
                let d = oracle::dump_room(&c.w.nodes[0].oracle_conn()?, &c.rooms[room].uid)?;
                for a in answers.iter().filter(|a| a.success && a.serialized.len() > 8) {
                    if let Ok(edges) = bincode::deserialize::<Vec<dv::Edge>>(&a.serialized) {
                        for e in edges {
                            if !d.nodes.iter().any(|n| n.id == e.src.to_vec()) {
                                c.w.violation("C08", &format!("served-other-room-row/Edges:{other_class}"), format!("Edges(room{room}, ids of room{ids_from}) returned a reference whose source row is not in room{room}"));
                            }
                        }
                    }
                }
            }
            _ => {}
        }
    }
    Ok(())
}
