//! Engine `model` (C15): sequences of data-model versions applied to instances holding data, at run time and at
//! restart, on two nodes whose hash maps are seeded differently (as between real peers).
//! Oracle: after an accepted version every row reads back the same values under the same names, identifiers never
//! change or collide and both nodes agree on them; a refused version changes nothing (model, stored configuration,
//! query results, acceptance of the next requests); restarting with the same model succeeds and changes nothing.
use crate::kit::{Rng, T0};
use crate::node::SimNode;
use crate::world::{Trace, World};
use discret::verif as dv;
use serde::{Deserialize, Serialize};
use std::collections::BTreeMap;

#[derive(Clone, Debug, Serialize, Deserialize, PartialEq)]
pub struct FieldS {
    pub name: String,
    /// 0 String, 1 Integer, 2 Boolean, 3 Float
    pub ty: u8,
    pub nullable: bool,
    pub default: bool,
    pub deprecated: bool,
}
#[derive(Clone, Debug, Serialize, Deserialize, PartialEq)]
pub struct EntityS {
    pub name: String,
    pub fields: Vec<FieldS>,
    pub deprecated: bool,
    pub index: Option<Vec<String>>,
    pub no_fts: bool,
}
#[derive(Clone, Debug, Serialize, Deserialize, PartialEq)]
pub struct NsS {
    pub name: String,
    pub entities: Vec<EntityS>,
}
pub type ModelS = Vec<NsS>;

#[derive(Clone, Debug, Serialize, Deserialize)]
pub struct Cfg {
    pub initial: ModelS,
}

#[derive(Clone, Debug, Serialize, Deserialize)]
#[serde(tag = "t")]
pub enum Step {
    /// apply a version; `valid` = the compatibility rules accept it; `at_restart` = stop, then start with the new text
    Version { model: ModelS, valid: bool, edit: String, at_restart: bool, node: usize },
    /// write one row in every entity (values for every current field)
    Fill { node: usize },
    /// restart with the same model
    Restart { node: usize },
    /// exercise the request caches: run a query and a mutation on every entity
    Touch { node: usize },
}

fn ty_name(t: u8) -> &'static str {
    match t % 4 {
        0 => "String",
        1 => "Integer",
        2 => "Boolean",
        _ => "Float",
    }
}
fn default_text(t: u8) -> &'static str {
    match t % 4 {
        0 => "\"dflt\"",
        1 => "7",
        2 => "true",
        _ => "1.5",
    }
}

pub fn render(m: &ModelS) -> String {
    let mut s = String::new();
    for ns in m {
        s.push_str(&format!("{} {{\n", ns.name));
        for e in &ns.entities {
            let dep = if e.deprecated { "@deprecated " } else { "" };
            let par = if e.no_fts { "(no_full_text_index)" } else { "" };
            s.push_str(&format!("  {dep}{}{par} {{\n", e.name));
            let mut entries = vec![];
            for f in &e.fields {
                let fdep = if f.deprecated { "@deprecated " } else { "" };
                let suffix = if f.default { format!(" default {}", default_text(f.ty)) } else if f.nullable { " nullable".to_string() } else { String::new() };
                entries.push(format!("    {fdep}{}: {}{}", f.name, ty_name(f.ty), suffix));
            }
            if let Some(ix) = &e.index {
                entries.push(format!("    index({})", ix.join(",")));
            }
            s.push_str(&entries.join(",\n"));
            s.push_str("\n  }\n");
        }
        s.push_str("}\n");
    }
    s
}

fn gen_field(r: &mut Rng, n: usize) -> FieldS {
    FieldS { name: format!("f{n}"), ty: r.usize(4) as u8, nullable: false, default: false, deprecated: false }
}

fn gen_initial(r: &mut Rng) -> ModelS {
    let mut m = vec![];
    let nns = 1 + r.usize(2);
    let mut fcount = 0;
    for i in 0..nns {
        let mut ents = vec![];
        for j in 0..(1 + r.usize(2)) {
            let mut fields = vec![];
            for _ in 0..(1 + r.usize(3)) {
                let mut f = gen_field(r, fcount);
                fcount += 1;
                if r.chance(1, 4) {
                    f.nullable = true;
                }
                fields.push(f);
            }
            ents.push(EntityS { name: format!("E{i}{j}"), fields, deprecated: false, index: None, no_fts: false });
        }
        m.push(NsS { name: if i == 0 { String::new() } else { format!("ns{i}") }, entities: ents });
    }
    m
}

/// one edit of the model; returns (new model, valid, label)
fn edit(r: &mut Rng, m: &ModelS, counter: &mut usize) -> (ModelS, bool, String) {
    let mut n = m.clone();
    let ni = r.usize(n.len());
    let ei = r.usize(n[ni].entities.len());
    let k = r.weighted(&[14, 10, 6, 6, 6, 6, 5, 6, 6, 6, 6, 5, 5, 5, 8]);
    *counter += 1;
    let c = *counter;
    match k {
        0 => {
            let mut f = gen_field(r, 100 + c);
            if r.chance(1, 2) {
                f.nullable = true
            } else {
                f.default = true
            }
            n[ni].entities[ei].fields.push(f);
            (n, true, "add-field".into())
        }
        1 => {
            // two fields at once (their identifiers must not depend on hash order)
            // declared in an order that is neither alphabetical nor the order of any hash: their identifiers follow
            // the declaration
            let k = 2 + r.usize(2);
            let mut names: Vec<String> = (0..k).map(|d| format!("{}{}", ["zz", "mm", "aa"][d % 3], 200 + c * 3 + d)).collect();
            if r.chance(1, 2) {
                names.reverse();
            }
            for name in names {
                let mut f = gen_field(r, 0);
                f.name = name;
                f.nullable = true;
                n[ni].entities[ei].fields.push(f);
            }
            (n, true, "add-two-fields".into())
        }
        2 => {
            let e = EntityS { name: format!("N{c}"), fields: vec![gen_field(r, 300 + c)], deprecated: false, index: None, no_fts: false };
            n[ni].entities.push(e);
            (n, true, "add-entity".into())
        }
        3 => {
            let e = EntityS { name: format!("M{c}"), fields: vec![gen_field(r, 400 + c)], deprecated: false, index: None, no_fts: false };
            n.push(NsS { name: format!("nx{c}"), entities: vec![e] });
            (n, true, "add-namespace".into())
        }
        4 => {
            let fi = r.usize(n[ni].entities[ei].fields.len());
            let f = &mut n[ni].entities[ei].fields[fi];
            if f.nullable {
                f.nullable = false;
                f.default = true;
                (n, true, "nullable-to-default".into())
            } else {
                f.deprecated = true;
                (n, true, "deprecate-field".into())
            }
        }
        5 => {
            n[ni].entities[ei].deprecated = true;
            (n, true, "deprecate-entity".into())
        }
        6 => {
            let e = &mut n[ni].entities[ei];
            if e.index.is_some() {
                e.index = None;
                (n, true, "remove-index".into())
            } else {
                e.index = Some(vec![e.fields[0].name.clone()]);
                (n, true, "add-index".into())
            }
        }
        // invalid edits
        7 => {
            if n[ni].entities[ei].fields.len() < 2 {
                return (n, true, "no-op".into());
            }
            // a deprecated field is still a field: removing it is refused like any other removal
            let dep: Vec<usize> = n[ni].entities[ei].fields.iter().enumerate().filter(|(_, f)| f.deprecated).map(|(i, _)| i).collect();
            if !dep.is_empty() && r.chance(2, 3) {
                let i = *r.pick(&dep);
                n[ni].entities[ei].fields.remove(i);
                return (n, false, "remove-deprecated-field".into());
            }
            let i = r.usize(n[ni].entities[ei].fields.len());
            n[ni].entities[ei].fields.remove(i);
            (n, false, "remove-field".into())
        }
        8 => {
            if n[ni].entities[ei].fields.len() < 2 {
                return (n, true, "no-op".into());
            }
            n[ni].entities[ei].fields.swap(0, 1);
            (n, false, "reorder-fields".into())
        }
        9 => {
            let f = &mut n[ni].entities[ei].fields[0];
            f.ty = (f.ty + 1) % 4;
            (n, false, "retype-field".into())
        }
        10 => {
            let f = gen_field(r, 500 + c);
            n[ni].entities[ei].fields.push(f);
            (n, false, "add-field-without-default".into())
        }
        11 => {
            if n[ni].entities.len() < 2 {
                return (n, true, "no-op".into());
            }
            let dep: Vec<usize> = n[ni].entities.iter().enumerate().filter(|(_, e)| e.deprecated).map(|(i, _)| i).collect();
            if !dep.is_empty() && r.chance(2, 3) {
                let i = *r.pick(&dep);
                n[ni].entities.remove(i);
                return (n, false, "remove-deprecated-entity".into());
            }
            let i = r.usize(n[ni].entities.len());
            n[ni].entities.remove(i);
            (n, false, "remove-entity".into())
        }
        12 => {
            let e = EntityS { name: format!("I{c}"), fields: vec![gen_field(r, 600 + c)], deprecated: false, index: None, no_fts: false };
            n[ni].entities.insert(0, e);
            (n, false, "insert-entity-first".into())
        }
        13 => {
            let f = &mut n[ni].entities[ei].fields[0];
            if !f.nullable && !f.default {
                return (n, true, "no-op".into());
            }
            // nullable -> non-null without default
            if f.nullable {
                f.nullable = false;
                f.default = false;
                (n, false, "nullable-to-required-without-default".into())
            } else {
                (n, true, "no-op".into())
            }
        }
        _ => {
            // valid for one entity, invalid for another, in the same version
            let mut f = gen_field(r, 700 + c);
            f.nullable = true;
            n[ni].entities[ei].fields.push(f);
            let nj = r.usize(n.len());
            let ej = r.usize(n[nj].entities.len());
            if nj == ni && ej == ei {
                return (n, true, "add-field".into());
            }
            let g = &mut n[nj].entities[ej].fields[0];
            g.ty = (g.ty + 1) % 4;
            (n, false, "valid-for-one-entity-invalid-for-another".into())
        }
    }
}

pub fn generate(seed: u64, property: &str, thorough: bool) -> Trace {
    let mut rc = Rng::stream(seed, "config");
    let mut rw = Rng::stream(seed, "workload");
    let initial = gen_initial(&mut rc);
    let mut cur = initial.clone();
    let mut steps = vec![Step::Fill { node: 0 }, Step::Fill { node: 1 }];
    let n = if thorough { 8 + rw.usize(12) } else { 4 + rw.usize(7) };
    let mut counter = 0;
    for _ in 0..n {
        match rw.weighted(&[60, 12, 14, 14]) {
            0 => {
                let (m, valid, label) = edit(&mut rw, &cur, &mut counter);
                if label == "no-op" {
                    continue;
                }
                let at_restart = rw.chance(1, 3);
                // the same version is applied on both nodes (peers applying the same versions must agree)
                steps.push(Step::Version { model: m.clone(), valid, edit: label.clone(), at_restart, node: 0 });
                steps.push(Step::Version { model: m.clone(), valid, edit: label, at_restart: rw.chance(1, 3), node: 1 });
                if valid {
                    cur = m;
                }
            }
            1 => steps.push(Step::Fill { node: rw.usize(2) }),
            2 => steps.push(Step::Restart { node: rw.usize(2) }),
            _ => steps.push(Step::Touch { node: rw.usize(2) }),
        }
    }
    steps.push(Step::Restart { node: 0 });
    steps.push(Step::Restart { node: 1 });
    Trace {
        engine: "model".into(),
        property: property.into(),
        seed,
        cfg: serde_json::to_value(&Cfg { initial }).unwrap(),
        steps: steps.iter().map(|s| serde_json::to_value(s).unwrap()).collect(),
        expect_fingerprint: None,
        note: None,
    }
}

pub fn directed(property: &str) -> Vec<Trace> {
    let f = |name: &str, ty: u8| FieldS { name: name.into(), ty, nullable: false, default: false, deprecated: false };
    let fn_ = |name: &str, ty: u8| FieldS { name: name.into(), ty, nullable: true, default: false, deprecated: false };
    let e = |name: &str, fields: Vec<FieldS>| EntityS { name: name.into(), fields, deprecated: false, index: None, no_fts: false };
    let base: ModelS = vec![NsS { name: String::new(), entities: vec![e("E1", vec![f("a", 0)]), e("E2", vec![f("b", 1)])] }];
    let mk = |name: &str, steps: Vec<Step>| Trace {
        engine: "model".into(),
        property: property.into(),
        seed: 0,
        cfg: serde_json::to_value(&Cfg { initial: base.clone() }).unwrap(),
        steps: steps.iter().map(|s| serde_json::to_value(s).unwrap()).collect(),
        expect_fingerprint: None,
        note: Some(name.to_string()),
    };
    let mut two = base.clone();
    two[0].entities[0].fields.push(fn_("surname", 0));
    two[0].entities[0].fields.push(fn_("age", 1));
    two[0].entities[0].fields.push(fn_("zip", 2));
    two[0].entities[0].fields.push(fn_("city", 0));
    let mut mixed = base.clone();
    mixed[0].entities[0].fields.push(fn_("x", 0));
    mixed[0].entities[1].fields[0].ty = 0;
    // a field is deprecated (valid), then dropped (refused), then a field is added (valid): identifiers stay put
    let mut dep = base.clone();
    dep[0].entities[0].fields.push(fn_("x", 0));
    let mut dep2 = dep.clone();
    dep2[0].entities[0].fields[1].deprecated = true;
    let mut dropped = dep2.clone();
    dropped[0].entities[0].fields.remove(1);
    let mut added = dep2.clone();
    added[0].entities[0].fields.push(fn_("y", 1));
    vec![
        mk(
            "C15 deprecated field dropped (refused), then a field added, restart, second node started on the last version",
            vec![
                Step::Fill { node: 0 },
                Step::Version { model: dep.clone(), valid: true, edit: "add-field".into(), at_restart: false, node: 0 },
                Step::Version { model: dep2.clone(), valid: true, edit: "deprecate-field".into(), at_restart: false, node: 0 },
                Step::Version { model: dropped.clone(), valid: false, edit: "remove-deprecated-field".into(), at_restart: false, node: 0 },
                Step::Version { model: added.clone(), valid: true, edit: "add-field".into(), at_restart: false, node: 0 },
                Step::Version { model: dep.clone(), valid: true, edit: "add-field".into(), at_restart: true, node: 1 },
                Step::Version { model: dep2.clone(), valid: true, edit: "deprecate-field".into(), at_restart: true, node: 1 },
                Step::Version { model: added.clone(), valid: true, edit: "add-field".into(), at_restart: true, node: 1 },
                Step::Fill { node: 0 },
                Step::Restart { node: 0 },
                Step::Restart { node: 1 },
            ],
        ),
        mk(
            "C15 version adding several fields at once on two nodes, then the same model at restart",
            vec![
                Step::Fill { node: 0 },
                Step::Fill { node: 1 },
                Step::Version { model: two.clone(), valid: true, edit: "add-two-fields".into(), at_restart: false, node: 0 },
                Step::Version { model: two.clone(), valid: true, edit: "add-two-fields".into(), at_restart: false, node: 1 },
                Step::Fill { node: 0 },
                Step::Restart { node: 0 },
                Step::Restart { node: 1 },
            ],
        ),
        mk(
            "C15 version valid for E1 and invalid for E2, then requests on E1",
            vec![
                Step::Fill { node: 0 },
                Step::Touch { node: 0 },
                Step::Version { model: mixed.clone(), valid: false, edit: "valid-for-one-entity-invalid-for-another".into(), at_restart: false, node: 0 },
                Step::Touch { node: 0 },
                Step::Restart { node: 0 },
            ],
        ),
    ]
}

struct Ctx {
    w: World,
    /// accepted model per node
    cur: Vec<ModelS>,
    /// rows written: node -> (entity full name, id, field name -> json value)
    rows: Vec<Vec<(String, String, BTreeMap<String, serde_json::Value>)>>,
    counter: u64,
    any: bool,
}

fn full_name(ns: &NsS, e: &EntityS) -> String {
    if ns.name.is_empty() {
        e.name.clone()
    } else {
        format!("{}.{}", ns.name, e.name)
    }
}

pub fn execute(trace: &Trace, keep_log: bool) -> (crate::kit::RunReport, Vec<String>) {
    let cfg: Cfg = serde_json::from_value(trace.cfg.clone()).expect("bad model cfg");
    let steps: Vec<Step> = trace.steps.iter().filter_map(|s| serde_json::from_value(s.clone()).ok()).collect();
    let w = World::new("model", trace.seed, keep_log);
    let mut c = Ctx { w, cur: vec![cfg.initial.clone(), cfg.initial.clone()], rows: vec![vec![], vec![]], counter: 0, any: false };
    let seed = c.w.report.seed;
    for i in 0..2 {
        let mut conf = dv::Configuration::default();
        conf.parallelism = 1;
        let mut n = SimNode::new(i, &format!("n{i}"), (10 + i * 40) as u8, &c.w.root, &render(&cfg.initial), conf, T0, seed + i as u64);
        if let Err(e) = n.start() {
            c.w.harness_error(format!("initial model refused: {e}\n{}", render(&cfg.initial)));
            return c.w.finish();
        }
        c.w.nodes.push(n);
    }
    for (i, st) in steps.iter().enumerate() {
        c.w.step_no = i + 1;
        match exec_step(&mut c, st) {
            Ok(true) => {}
            Ok(false) => break,
            Err(e) => {
                c.w.harness_error(format!("step {i}: {e}"));
                break;
            }
        }
    }
    c.w.report.nontrivial = c.any;
    c.w.finish()
}

/// identifiers of entities and fields as the instance reports them
fn identifiers(n: &mut SimNode) -> Result<BTreeMap<String, String>, String> {
    let db = n.dbh();
    let j = n.run(async move { db.datamodel().await.map_err(|e| e.to_string()) }).map_err(|e| format!("{e:?}"))??;
    let v: serde_json::Value = serde_json::from_str(&j).map_err(|e| e.to_string())?;
    let mut out = BTreeMap::new();
    if let Some(nss) = v["namespaces"].as_object() {
        for (nsn, ents) in nss {
            if nsn == "sys" {
                continue;
            }
            if let Some(ents) = ents.as_object() {
                for (en, e) in ents {
                    out.insert(format!("{en}"), e["short_name"].as_str().unwrap_or("?").to_string());
                    if let Some(fields) = e["fields"].as_object() {
                        for (fnm, f) in fields {
                            out.insert(format!("{en}#{fnm}"), f["short_name"].as_str().unwrap_or("?").to_string());
                        }
                    }
                }
            }
        }
    }
    // the reverse table (identifier -> entity), which the ingestion of rows received from peers goes through
    if let Some(rev) = v["entities_short"].as_object() {
        for (short, e) in rev {
            let name = e.as_array().and_then(|a| a.get(1)).and_then(|x| x.as_str()).unwrap_or("?");
            if !name.starts_with("sys.") {
                out.insert(format!("<-{short}"), name.to_string());
            }
        }
    } else {
        out.insert("<-".into(), "reverse table not exported".into());
    }
    // and it is complete: every entity is found by its identifier
    let missing: Vec<String> = out.iter().filter(|(k, _)| !k.contains('#') && !k.starts_with("<-")).filter(|(_, short)| !out.contains_key(&format!("<-{short}"))).map(|(k, _)| k.clone()).collect();
    for m in missing {
        out.insert(format!("<-missing:{m}"), format!("entity {m} not found by its identifier"));
    }
    Ok(out)
}

fn stored_model(n: &SimNode) -> Result<String, String> {
    let conn = n.oracle_conn()?;
    conn.query_row("SELECT value FROM _configuration WHERE key='Data Model'", [], |r| r.get::<_, String>(0)).map_err(|e| e.to_string())
}

fn value_for(f: &FieldS, k: u64) -> serde_json::Value {
    match f.ty % 4 {
        0 => serde_json::Value::String(format!("v{k}-{}", f.name)),
        1 => serde_json::json!(k as i64 * 10 + 3),
        2 => serde_json::json!(k % 2 == 0),
        _ => serde_json::json!(k as f64 + 0.5),
    }
}

/// every row written on this node must read back with the values it was written with (under the same names);
/// fields added later read as null or their default
fn check_rows(c: &mut Ctx, node: usize, when: &str, edit: &str) -> Result<(), String> {
    let model = c.cur[node].clone();
    for ns in &model {
        for e in &ns.entities {
            let name = full_name(ns, e);
            let fields: Vec<String> = e.fields.iter().map(|f| f.name.clone()).collect();
            let q = format!("query {{ {name}(order_by(id asc)){{ id {} }} }}", fields.join(" "));
            let res = c.w.nodes[node].query(&q, None);
            let res = match res {
                Ok(r) => r,
                Err(err) => {
                    c.w.violation("C15", &format!("row-unreadable-or-changed/{edit}"), format!("n{node} {when}: query on {name} fails: {err}"));
                    continue;
                }
            };
            let v: serde_json::Value = serde_json::from_str(&res).map_err(|e| e.to_string())?;
            let got = v[&name].as_array().cloned().unwrap_or_default();
            let expected: Vec<&(String, String, BTreeMap<String, serde_json::Value>)> = c.rows[node].iter().filter(|r| r.0 == name).collect();
            if got.len() != expected.len() {
                c.w.violation("C15", &format!("row-unreadable-or-changed/{edit}"), format!("n{node} {when}: {name} returns {} rows, {} were written", got.len(), expected.len()));
                continue;
            }
            for (_, id, vals) in expected {
                let Some(row) = got.iter().find(|g| g["id"].as_str() == Some(id.as_str())) else {
                    c.w.violation("C15", &format!("row-unreadable-or-changed/{edit}"), format!("n{node} {when}: row {id} of {name} is not returned"));
                    continue;
                };
                for f in &e.fields {
                    let actual = &row[&f.name];
                    match vals.get(&f.name) {
                        Some(want) => {
                            let same = match (want.as_f64(), actual.as_f64()) {
                                (Some(a), Some(b)) => (a - b).abs() < 1e-9,
                                _ => want == actual,
                            };
                            if !same {
                                c.w.violation("C15", &format!("row-unreadable-or-changed/{edit}"), format!("n{node} {when}: {name}.{} of row {id} was written {want} and reads {actual}", f.name));
                            }
                        }
                        None => {
                            // field added after the row was written: it reads as its default value, or as null when it is nullable
                            // (a row written while the field was still nullable stores an explicit null and keeps reading null)
                            let ok = if actual.is_null() {
                                true
                            } else if f.default {
                                match f.ty % 4 {
                                    0 => actual.as_str() == Some("dflt"),
                                    1 => actual.as_i64() == Some(7),
                                    // a boolean default reads as the number 1 (the shipped test query_with_null_default asserts it)
                                    2 => actual.as_bool() == Some(true) || actual.as_i64() == Some(1),
                                    _ => actual.as_f64().map(|x| (x - 1.5).abs() < 1e-9).unwrap_or(false),
                                }
                            } else {
                                actual.is_null()
                            };
                            if !ok {
                                c.w.violation("C15", &format!("row-unreadable-or-changed/{edit}"), format!("n{node} {when}: new field {name}.{} reads {actual} on an older row", f.name));
                            }
                        }
                    }
                }
            }
        }
    }
    Ok(())
}

fn check_identifiers(c: &mut Ctx, node: usize, before: &BTreeMap<String, String>, edit: &str) -> Result<(), String> {
    let after = identifiers(&mut c.w.nodes[node])?;
    if let Some((k, _)) = after.iter().find(|(k, _)| k.starts_with("<-missing:")) {
        c.w.violation("C15", &format!("identifier-not-resolvable/{edit}"), format!("n{node}: entity {} has an identifier but is not found by it (rows of it received from peers cannot be stored)", k.trim_start_matches("<-missing:")));
    }
    for (k, v) in before {
        match after.get(k) {
            Some(a) if a == v => {}
            other => c.w.violation("C15", &format!("identifier-changed-or-collides/{edit}"), format!("n{node}: identifier of {k} was {v} and is now {other:?}")),
        }
    }
    // collisions: per entity, field identifiers are distinct; entity identifiers are distinct
    let mut seen: BTreeMap<(String, String), String> = BTreeMap::new();
    for (k, v) in &after {
        let scope = k.split('#').next().unwrap_or("").to_string();
        let scope = if k.contains('#') { scope } else { "<entities>".to_string() };
        if let Some(prev) = seen.insert((scope.clone(), v.clone()), k.clone()) {
            c.w.violation("C15", &format!("identifier-changed-or-collides/{edit}"), format!("n{node}: {k} and {prev} share identifier {v}"));
        }
    }
    Ok(())
}

fn exec_step(c: &mut Ctx, st: &Step) -> Result<bool, String> {
    for n in &mut c.w.nodes {
        n.clock += 1000;
    }
    match st {
        Step::Fill { node } => {
            let node = *node % 2;
            let model = c.cur[node].clone();
            for ns in &model {
                for e in &ns.entities {
                    c.counter += 1;
                    let k = c.counter;
                    let name = full_name(ns, e);
                    let mut vals = BTreeMap::new();
                    let mut parts = vec![];
                    let mut params = serde_json::Map::new();
                    for f in &e.fields {
                        let v = value_for(f, k);
                        parts.push(format!("{}:${}", f.name, f.name));
                        params.insert(f.name.clone(), v.clone());
                        vals.insert(f.name.clone(), v);
                    }
                    let q = format!("mutate {{ {name}{{ {} }} }}", parts.join(" "));
                    match c.w.nodes[node].mutate(&q, Some(&serde_json::Value::Object(params).to_string())) {
                        Ok(r) => {
                            let v: serde_json::Value = serde_json::from_str(&r).map_err(|e| e.to_string())?;
                            let id = v[&name]["id"].as_str().unwrap_or("").to_string();
                            c.rows[node].push((name, id, vals));
                            c.any = true;
                        }
                        Err(err) => {
                            c.w.violation("C15", "valid-request-refused/after-accepted-versions", format!("n{node}: a mutation valid for the accepted model is refused on {name}: {err}"));
                        }
                    }
                }
            }
            c.w.log.sched(format!("fill n{node}"));
        }
        Step::Touch { node } => {
            let node = *node % 2;
            check_rows(c, node, "touch", "none")?;
            c.w.log.sched(format!("touch n{node}"));
        }
        Step::Restart { node } => {
            let node = *node % 2;
            let ids = identifiers(&mut c.w.nodes[node])?;
            let stored = stored_model(&c.w.nodes[node])?;
            let left = c.w.nodes[node].stop();
            if left != 0 {
                return Err(format!("{left} threads left"));
            }
            let r = c.w.nodes[node].start();
            c.w.fault("restart");
            c.w.log.sched(format!("restart n{node} ok={}", r.is_ok()));
            if let Err(e) = r {
                c.w.violation("C15", "restart-same-model-failed-or-changed/start-refused", format!("n{node} cannot restart with the model it accepted: {e}"));
                return Ok(false);
            }
            check_identifiers(c, node, &ids, "restart-same-model")?;
            let stored2 = stored_model(&c.w.nodes[node])?;
            let norm = |s: &str| -> serde_json::Value { serde_json::from_str(s).unwrap_or(serde_json::Value::Null) };
            if norm(&stored2) != norm(&stored) {
                c.w.violation("C15", "restart-same-model-failed-or-changed/stored-model-changed", format!("n{node}: restarting with the same model rewrote the stored model"));
            }
            check_rows(c, node, "after-restart", "restart-same-model")?;
        }
        Step::Version { model, valid, edit, at_restart, node } => {
            let node = *node % 2;
            let text = render(model);
            let ids = identifiers(&mut c.w.nodes[node])?;
            let stored = stored_model(&c.w.nodes[node])?;
            let dm_before = {
                let db = c.w.nodes[node].dbh();
                c.w.nodes[node].run(async move { db.datamodel().await.map_err(|e| e.to_string()) }).map_err(|e| format!("{e:?}"))??
            };
            c.any = true;
            c.w.probe(&format!("edit_{edit}"));
            let accepted = if *at_restart {
                let left = c.w.nodes[node].stop();
                if left != 0 {
                    return Err(format!("{left} threads left"));
                }
                let old = c.w.nodes[node].model.clone();
                c.w.nodes[node].model = text.clone();
                match c.w.nodes[node].start() {
                    Ok(()) => true,
                    Err(e) => {
                        c.w.log.log(format!("start with new version refused: {e}"));
                        // the instance must still start with the previous model
                        c.w.nodes[node].model = old;
                        if let Err(e2) = c.w.nodes[node].start() {
                            c.w.violation("C15", &format!("refused-version-had-effect/{edit}:cannot-restart-with-previous-model"), format!("n{node}: after a refused version the instance no longer starts with its previous model: {e2}"));
                            return Ok(false);
                        }
                        false
                    }
                }
            } else {
                let db = c.w.nodes[node].dbh();
                let t = text.clone();
                // GraphDatabaseService::update_data_model drops the verdict of the update (it always returns the current
                // model): the verdict is read from the request itself
                let r = c.w.nodes[node]
                    .run(async move {
                        let (tx, rx) = tokio::sync::oneshot::channel();
                        let _ = db.sender.send(dv::DbMessage::DataModelUpdate(t, tx)).await;
                        match rx.await {
                            Ok(r) => r.map_err(|e| e.to_string()),
                            Err(e) => Err(e.to_string()),
                        }
                    })
                    .map_err(|e| format!("{e:?}"))?;
                if let Err(e) = &r {
                    c.w.log.log(format!("version refused: {e}"));
                }
                if r.is_ok() {
                    c.w.nodes[node].model = text.clone();
                }
                r.is_ok()
            };
            c.w.log.sched(format!("version n{node} {edit} valid={valid} restart={at_restart} accepted={accepted}"));
            if accepted != *valid {
                let clause = if accepted { "invalid-version-accepted" } else { "valid-version-refused" };
                c.w.violation("C15", &format!("{clause}/{edit}"), format!("n{node}: version ({edit}) expected {} was {}", if *valid { "accepted" } else { "refused" }, if accepted { "accepted" } else { "refused" }));
            }
            if accepted {
                c.cur[node] = model.clone();
                check_identifiers(c, node, &ids, edit)?;
                check_rows(c, node, "after-accepted-version", edit)?;
                // both nodes applied the same versions: identical identifiers
                if c.cur[0] == c.cur[1] {
                    let a = identifiers(&mut c.w.nodes[0])?;
                    let b = identifiers(&mut c.w.nodes[1])?;
                    if a != b {
                        let d = a.iter().find(|(k, v)| b.get(*k) != Some(v)).map(|(k, v)| format!("{k}: {v} vs {:?}", b.get(k))).unwrap_or_default();
                        c.w.violation("C15", &format!("peers-disagree-on-identifiers/{edit}"), format!("both nodes applied the same versions but disagree: {d}"));
                    }
                }
            } else {
                // a refused version changes nothing
                let after_ids = identifiers(&mut c.w.nodes[node])?;
                let dm_after = {
                    let db = c.w.nodes[node].dbh();
                    c.w.nodes[node].run(async move { db.datamodel().await.map_err(|e| e.to_string()) }).map_err(|e| format!("{e:?}"))??
                };
                let norm = |s: &str| -> serde_json::Value { serde_json::from_str(s).unwrap_or(serde_json::Value::Null) };
                if after_ids != ids || norm(&dm_after) != norm(&dm_before) {
                    c.w.violation("C15", &format!("refused-version-had-effect/{edit}:running-model-changed"), format!("n{node}: the refused version ({edit}) changed the model of the running instance"));
                }
                let stored2 = stored_model(&c.w.nodes[node])?;
                if norm(&stored2) != norm(&stored) {
                    c.w.violation("C15", &format!("refused-version-had-effect/{edit}:stored-model-changed"), format!("n{node}: the refused version ({edit}) changed the stored model"));
                }
                check_rows(c, node, "after-refused-version", edit)?;
            }
        }
    }
    Ok(true)
}
