pub mod byz;
pub mod chaos;
pub mod crash;
pub mod lock;
pub mod model;
pub mod phase;
pub mod repl;
pub mod rights;
pub mod serve;
pub mod trust;

use crate::driver::PropSpec;
use crate::kit::RunReport;
use crate::world::Trace;

pub fn generate(engine: &str, prop: &str, seed: u64, thorough: bool) -> Trace {
    match engine {
        "repl" => repl::generate(seed, prop, thorough),
        "crash" => crash::generate(seed, prop, thorough),
        "rights" => rights::generate(seed, prop, thorough),
        "lock" => lock::generate(seed, prop, thorough),
        "phase" => phase::generate(seed, prop, thorough),
        "serve" => serve::generate(seed, prop, thorough),
        "trust" => trust::generate(seed, prop, thorough),
        "model" => model::generate(seed, prop, thorough),
        "byz" => byz::generate(seed, prop, thorough),
        "chaos" => chaos::generate(seed, prop, thorough),
        _ => panic!("unknown engine {engine}"),
    }
}

pub fn directed(engine: &str, prop: &str) -> Vec<Trace> {
    match engine {
        "repl" => repl::directed(prop),
        "crash" => crash::directed(prop),
        "rights" => rights::directed(prop),
        "lock" => lock::directed(prop),
        "phase" => phase::directed(prop),
        "serve" => serve::directed(prop),
        "trust" => trust::directed(prop),
        "model" => model::directed(prop),
        "byz" => byz::directed(prop),
        "chaos" => chaos::directed(prop),
        _ => vec![],
    }
}

pub fn execute(trace: &Trace, keep_log: bool) -> (RunReport, Vec<String>) {
    match trace.engine.as_str() {
        "repl" => repl::execute(trace, keep_log),
        "crash" => crash::execute(trace, keep_log),
        "rights" => rights::execute(trace, keep_log),
        "lock" => lock::execute(trace, keep_log),
        "phase" => phase::execute(trace, keep_log),
        "serve" => serve::execute(trace, keep_log),
        "trust" => trust::execute(trace, keep_log),
        "model" => model::execute(trace, keep_log),
        "byz" => byz::execute(trace, keep_log),
        "chaos" => chaos::execute(trace, keep_log),
        e => panic!("unknown engine {e}"),
    }
}

const REAL_DB: &[&str] = &[
    "GraphDatabaseService main loop", "DatabaseReader thread + SQLCipher", "AuthorisationService actor",
    "BufferedDatabaseWriter buffering task + writer thread", "DailyLogsUpdate::compute", "EventService",
    "SignatureVerificationService thread",
];
const REAL_SYNC: &[&str] = &[
    "QueryService (puller side of the query protocol)", "LocalPeerService::synchronise_room (via hook H5)",
    "InboundQueryService::process_inbound (serving side)",
];
const STUB_NET: &[&str] = &[
    "QUIC endpoint / TLS / frame layer (replaced by simulator-owned mpsc channels of typed messages)",
    "multicast discovery", "beacon", "PeerConnectionService (dummy channel sink)",
];

pub fn specs() -> Vec<PropSpec> {
    let repl_real: &'static [&'static str] = Box::leak([REAL_DB, REAL_SYNC].concat().into_boxed_slice());
    vec![
        PropSpec {
            id: "C03",
            engine: "repl",
            budget_s: (50, 600),
            level: "exploration",
            rule: "seeded traces of local operations, pulls (complete, cut, message-stepped and interleaved), crash/restart and clock steps over 2-4 member nodes, followed by a fault-free heal phase; a run is non-trivial if at least one write or pull completed; distinct = distinct schedule signature (hash of the sequence of node, step kind, outcome, request kinds actually executed)",
            assumptions: &[
                "all nodes are members with full rights on every entity (rights are C01/C02's subject)",
                "transport is reliable and ordered per stream (QUIC); only cuts, stalls->timeouts, crashes and reordering across sessions are injected",
                "heal bound 2N+3 full rounds of ordered pairs",
            ],
            real: repl_real,
            stub: STUB_NET,
            batch: 1,
        },
        PropSpec {
            id: "C11",
            engine: "repl",
            budget_s: (50, 600),
            level: "exploration",
            rule: "as C03 with deletions weighted up; oracle evaluated on every node after every step; distinct = distinct schedule signature among runs in which a write or pull completed",
            assumptions: &[
                "a row updated elsewhere to a version newer than the deleted one is outside the statement (only 'the deleted or any older version' is checked)",
            ],
            real: repl_real,
            stub: STUB_NET,
            batch: 1,
        },
        PropSpec {
            id: "C09",
            engine: "repl,rights",
            budget_s: (50, 600),
            level: "exploration",
            rule: "two engines, alternating seeds. rights: the C01 workload (moves between rooms, nested creations, refused operations, several authors) with the same log oracles on every node and room after every barrier. repl: as C03 with day changes and recomputation barriers weighted up; at each barrier: no mark left, counts and daily hashes recomputed by harness code, whole log equal to a from-scratch rebuild by the real compute(), equal content <=> equal logs across nodes",
            assumptions: &[
                "the chained history hash is never re-implemented: it is only required to be a function of content (metamorphic rebuild with the real DailyLogsUpdate::compute)",
            ],
            real: repl_real,
            stub: STUB_NET,
            batch: 1,
        },
        PropSpec {
            id: "C17",
            engine: "repl",
            budget_s: (50, 600),
            level: "exploration",
            rule: "as C03 with text updates weighted up; at each barrier every vocabulary token is searched on every node and compared with the node's own current text",
            assumptions: &["search terms are vocabulary tokens of 3+ lower-case letters/digits"],
            real: repl_real,
            stub: STUB_NET,
            batch: 1,
        },
        PropSpec {
            id: "C13",
            engine: "crash",
            budget_s: (50, 600),
            level: "exploration",
            rule: "one node; seeded workloads of multi-row mutations, renames, deletions, reference deletions, room mutations, mutation streams, synchronised batches (pull from a prepared peer) and recomputation requests, issued one per transaction or grouped into ONE transaction through the batch gate; one injected fault per round at (site, k-th passage, kind) over 15 writer fault points x {statement error once, sticky, crash}; crash = writer thread dies inside the open transaction, node restarted on the same directory; distinct = distinct schedule signature among runs in which an operation completed",
            assumptions: &[
                "storage faults are injected at statement/transaction granularity inside the real write functions (the shipped ROLLBACK handling runs); torn pages / power loss are out of reach (no VFS seam)",
                "a fault at 'before_commit' stands for the COMMIT statement itself failing with the transaction still open",
                "in-process crash: the writer thread panics inside the transaction, every handle is dropped, the node restarts on the same files (what a killed process leaves with WAL)",
            ],
            real: repl_real,
            stub: STUB_NET,
            batch: 1,
        },
        PropSpec {
            id: "C18",
            engine: "crash,repl",
            budget_s: (40, 600),
            level: "exploration",
            rule: "one node, subscriber subscribed before the run and drained at every settle; the same workloads as C13 without faults, with transaction boundaries chosen through the batch gate (several changes, room mutations, streams and recomputation passes in one transaction); at the end every acknowledged change must be covered by a DataChanged (room, entity, day) / RoomModified event; distinct = distinct schedule signature",
            assumptions: &["no requirement on which event or how many; ingestion events are checked in the repl engine"],
            real: repl_real,
            stub: STUB_NET,
            batch: 1,
        },
        PropSpec {
            id: "C01",
            engine: "rights",
            budget_s: (50, 600),
            level: "exploration",
            rule: "2-4 identities (one real node each) and 1-2 rooms whose definitions evolve (admins, groups, users, user admins, per-entity and wildcard rights, enabled/disabled, replaced over time); every operation shape issued by any identity; fault-free barrier synchronisation after every accepted change so foreign rows exist locally; each API verdict is compared with an independent rights model evaluated at the operation's date and a refused operation must leave the whole database unchanged; distinct = distinct schedule signature (operation shapes, actors, expected and obtained verdicts)",
            assumptions: &[
                "rights model written from the statements of C01/C07/C10: last entry not later than the date; wildcard fallback; a right is granted through any group the key belongs to as enabled user or user admin; a room admin may use any group's rights; all-rows implies own-rows",
                "a room creator always lists itself as admin (the statement is silent on other creations)",
                "clock skew between identities is at most a few ms and room-definition steps are >= 20 ms apart, so entry dates are monotone (append-only histories)",
            ],
            real: repl_real,
            stub: STUB_NET,
            batch: 1,
        },
        PropSpec {
            id: "C10",
            engine: "rights",
            budget_s: (50, 600),
            level: "exploration",
            rule: "as C01 with room-definition steps, restarts and decision-grid barriers weighted up; at each barrier the in-memory room of every node (live on the mutating node, imported on the others, reloaded after restart) is questioned over {identities} x {entities, unknown entity} x {every entry date +-1 ms} x {admin, member, own-rows, all-rows} and compared with the rights model; every restart must succeed; at random points an instance that never saw the rooms imports every room from every node (late joiner), answers the same grid, restarts and answers it again",
            assumptions: &["same rights model as C01"],
            real: repl_real,
            stub: STUB_NET,
            batch: 1,
        },
        PropSpec {
            id: "C12",
            engine: "rights",
            budget_s: (50, 600),
            level: "exploration",
            rule: "as C01; after every locally accepted data operation all peers (holding the same room definitions) pull until quiet and must store exactly the same rows, references and deletion records; a creation refused locally for lack of right is signed with the refused author's key and offered to a peer through the real ingestion entry point, which must refuse it",
            assumptions: &["the two implementations are each other's oracle; the rights model only labels the report"],
            real: repl_real,
            stub: STUB_NET,
            batch: 1,
        },
        PropSpec {
            id: "C20",
            engine: "lock,trust",
            budget_s: (40, 600),
            level: "exploration",
            rule: "the real RoomLockService actor (limit 1-2) and 1-3 abstract connections x 1-3 rooms; the seeded schedule orders lock requests (new peer, repeated and extended requests while waiting, overlapping sets), releases, stray and double unlocks, connection ends and receivers dropped while waiting, up to 40 (thorough: 60) messages; the actor is single-threaded, so the message order is its schedule; a run is non-trivial if at least one lock was granted; distinct = distinct schedule signature (message kinds, actors, grants observed)",
            assumptions: &[
                "abstract clients are well behaved: they release exactly what they were granted (the real connection loop is exercised in the conn engine)",
                "bounded liveness: after the last fault every holder releases; the service must grant every pending request of a live connection before it goes idle",
            ],
            real: &["RoomLockService actor (room_locking_service.rs)"],
            stub: &["connections (abstract clients owning the reply channels)"],
            batch: 40,
        },
        PropSpec {
            id: "C16",
            engine: "phase",
            budget_s: (40, 600),
            level: "exploration",
            rule: "one live node; 2-3 mutations on the same row (different fields, same field, reference add, single-reference replace, room move) issued by concurrent callers or pipelined on the mutation stream; the simulator decides with the batch gate whether a later mutation is read before or after an earlier one is written (flush points); the final row must equal the acknowledged mutations applied serially in some order; non-trivial = at least two mutations acknowledged; distinct = distinct schedule signature",
            assumptions: &[
                "one reader thread and one authorisation actor: read and validate/sign phases happen in issue order; the only freedom of the production pipeline is when the writer commits relative to later reads, which the gate decides",
            ],
            real: repl_real,
            stub: &[],
            batch: 1,
        },
        PropSpec {
            id: "C08",
            engine: "serve",
            budget_s: (50, 600),
            level: "exploration",
            rule: "honest server V with 2-4 rooms and a requester M whose membership differs per room (member, former member, never member, admin only, user-admin only) and changes while connected; M talks to V's real connection services (handshake, InboundQueryService, LocalPeerService event loop) through the simulated transport: every request kind, naming rooms and row ids of rooms it does and does not belong to, before and after the identity proof, before and after its room list, interleaved with membership changes and writes on V; every answer is decoded and must only carry data of rooms M is a member of at V's date; distinct = distinct schedule signature (request kinds, membership classes, answers)",
            assumptions: &[
                "membership at V's date is read from V's own in-memory room (is_user_valid_at); the meaning of a room is C10's subject",
                "M answers V's own requests with errors (V's pulling side is inert in this engine)",
            ],
            real: &[
                "InboundQueryService task and process_inbound", "LocalPeerService::start (handshake, event loop, process_local_event)", "QueryService", "RoomLockService",
                "database service, authorisation actor, event service",
            ],
            stub: &["QUIC endpoint / frames", "PeerConnectionService loop (mailbox and local-event forwarding done by the simulator exactly as process_event does)", "PeerManager"],
            batch: 1,
        },
        PropSpec {
            id: "C19",
            engine: "trust",
            budget_s: (50, 600),
            level: "exploration",
            rule: "3-4 real nodes, each with its real connection loops (LocalPeerService::start, InboundQueryService, QueryService), a real PeerManager on a stub endpoint and a real lock service; invitations created, accepted (intact, truncated, random, bit-flipped), used between honest nodes with every stream relayed message by message, offered again and after restarts; an adversary holding only its own identities opens connections on a victim with the token of an allowed peer or of an invitation and answers the identity challenge in 8 ways (own key, wrong key, replayed answer of another connection, valid proof by another allowed peer, malformed peer row, signature over other bytes, no answer -> timeout, answer after the timeout); trusted = key bound, Ready sent, reported connected, invitation consumed or rooms served; distinct = distinct schedule signature",
            assumptions: &[
                "for an invitation the expected key is any key the remote proves on this connection's challenge (the invitee is unknown by design); for an allowed peer it is that peer's key",
                "the election between two QUIC connections of one pair (PeerManager::add_connection) needs quinn objects and does not run",
            ],
            real: &["LocalPeerService::start / initialise_connection", "InboundQueryService", "QueryService", "PeerManager (tokens, invitations, allowed peers)", "RoomLockService", "database service"],
            stub: &["DiscretEndpoint (struct around a simulator-owned channel)", "QUIC / multicast / beacon", "PeerConnectionService loop (its message handling is replayed by the simulator with the real PeerManager)"],
            batch: 1,
        },
        PropSpec {
            id: "C15",
            engine: "model",
            budget_s: (50, 600),
            level: "exploration",
            rule: "two real nodes holding data; sequences of data-model versions generated by valid edits (new field nullable or with default, several fields at once, new entity, new namespace, nullable to default, deprecations, index added/removed) and invalid edits (field removed, reordered, retyped, required without default, entity removed or inserted first, nullable to required, a version valid for one entity and invalid for another), applied at run time or at restart, with restarts on the same model and request-cache exercises in between; the hash-map seed differs per run (and per map inside a run); distinct = distinct schedule signature (edits, where applied, verdicts)",
            assumptions: &["accept/refuse expectations come from the construction of each edit (documented compatibility rules)"],
            real: repl_real,
            stub: &["no network in this engine"],
            batch: 1,
        },
        PropSpec {
            id: "C02",
            engine: "byz",
            budget_s: (50, 600),
            level: "exploration",
            rule: "honest source H, honest victim V, adversary M holding its own key (own-rows right on one entity of room r1, from a known date, possibly disabled later) and every validly signed row it was served; V runs its real pull of r1 while M rewrites H's answers: 21 operators (row of another room, author without right, dated before enabled / after disabled, foreign row replaced or deleted with the own-rows right only, tampered fields under the original signature, oversized, model-violating, unknown entity or label, reference whose source row is elsewhere, absent or somebody else's, row moved from a room without right (also into a room where M has every right), own row deleted after M was disabled, deletion records naming another room than the row's, and a legitimate row as control), interleaved with honest writes, honest pulls and the disabling of M; after each session nothing injected may be found in any table of V, V's copy of the attacked rows is unchanged, the honest rows of the same batch are stored, and after an undisturbed pull everything V stores is something H stores or a row M was entitled to write; distinct = distinct schedule signature (operators, answers actually rewritten, session outcome)",
            assumptions: &["the adversary cannot forge signatures of keys it does not hold (ed25519 is real in the run)", "an operator whose answer kind was never requested in the session is counted as not applied"],
            real: repl_real,
            stub: STUB_NET,
            batch: 1,
        },
        PropSpec {
            id: "C06",
            engine: "byz,rights",
            budget_s: (40, 600),
            level: "exploration",
            rule: "two engines, alternating seeds. rights: the C01 workload (every operation shape by 2-4 identities, barriered pulls) with, after every accepted local operation and after every synchronisation, every stored row, reference and deletion record of every node verified against its own signature exactly as stored. byz: as C02 with the signature operators: a validly signed reference re-cut at the boundary between its unlength-prefixed fields (source entity \"11\" + label \"32\" -> \"1\" + \"132\", both reference fields of a model built for the purpose), a row re-cut between its JSON text and its binary field or between its entity name and its JSON text, and rows / references in H's name whose signature is the answer H gives to an identity challenge chosen by M; nothing H did not write may be stored by V under H's key",
            assumptions: &["splices need adjacent variable-length fields in the digest: only references have them (rows serialise their fields through JSON and fixed-size values)"],
            real: repl_real,
            stub: STUB_NET,
            batch: 1,
        },
        PropSpec {
            id: "C07",
            engine: "byz",
            budget_s: (40, 600),
            level: "exploration",
            rule: "as C02 with the room-definition operators: M claims a newer definition date and substitutes the definition V imports (real add_room_node / prepare_room_with_history): older definition with entries omitted (alone, or with a legitimately new entry: V must then end with the honest definition exactly), admin-signed user entry re-attached as admin or moved to the all-rights group by a reference M signs, self-signed admin / right / user-admin entries, right entry of another room, existing reference signed again, existing entry altered under the same id, user entry signed by a revoked user admin, right signed by a former admin after its revocation; the same operators served to a member W that never saw the room; V's stored entries before must all be stored unchanged after, nothing new stored, and V's decision grid {3 identities} x {entities} x {dates} x {admin, member, own, all} unchanged",
            assumptions: &["none of the crafted definitions contains an entry added by somebody entitled to, so any change is a violation"],
            real: repl_real,
            stub: STUB_NET,
            batch: 1,
        },
        PropSpec {
            id: "C14",
            engine: "chaos",
            budget_s: (50, 600),
            level: "exploration",
            rule: "a live node (2 reader threads, verifier pool, writer) and an honest peer; per run a data model generated over awkward identifiers (storage-engine and language keywords, digits first, '_', Unicode letters) with every field type, then 10-50 inputs: requests generated from the grammar over that model (creations with nested references, updates, deletions, queries with filters on every type, null and JSON filters, search, ordering and paging, limits, aliases, aggregates, JSON selectors), every parameter kind against every field type, character-level mutations of requests and of the model text, hostile answers of every kind while the node pulls (garbage, truncated, empty, huge length prefix, other kind, rows with empty / short / long keys and signatures, empty entity, broken JSON, extreme dates, no room), hostile requests on its serving side, local use of whatever was received, requests on the system entities, parameter sets that are no object / nested / out of range, fresh instances started on mutated model texts, restarts; after EVERY input: no panic in the process (panic hook), every service thread alive (per-node thread registry), no hang, and a probe mutation, probe query and four signature verifications answered normally; a damaged instance is reported and restarted so the run goes on; distinct = distinct schedule signature (input shapes and verdicts)",
            assumptions: &[
                "'rejected by the database engine' = the error returned is the storage-engine variant (rusqlite) of the database error; any other error is a legitimate refusal",
                "wire frames below typed messages (QUIC frame lengths) are outside the simulated transport; hostile bytes enter as message payloads",
            ],
            real: repl_real,
            stub: STUB_NET,
            batch: 1,
        },
    ]
}

pub fn spec_for(prop: &str) -> Option<PropSpec> {
    specs().into_iter().find(|s| s.id == prop)
}
