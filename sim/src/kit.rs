//! Kit: PRNG streams, event log, run reports. No dependency on discret.
use serde::{Deserialize, Serialize};
use std::collections::BTreeMap;

// ---------------------------------------------------------------------------------------
// PRNG: splitmix64 seeding xoshiro256**; independent streams by label
// ---------------------------------------------------------------------------------------
#[derive(Clone, Debug)]
pub struct Rng {
    s: [u64; 4],
}

pub fn splitmix64(x: &mut u64) -> u64 {
    *x = x.wrapping_add(0x9E37_79B9_7F4A_7C15);
    let mut z = *x;
    z = (z ^ (z >> 30)).wrapping_mul(0xBF58_476D_1CE4_E5B9);
    z = (z ^ (z >> 27)).wrapping_mul(0x94D0_49BB_1331_11EB);
    z ^ (z >> 31)
}

pub fn hash_label(label: &str) -> u64 {
    // FNV-1a
    let mut h: u64 = 0xcbf29ce484222325;
    for b in label.bytes() {
        h ^= b as u64;
        h = h.wrapping_mul(0x100000001b3);
    }
    h
}

impl Rng {
    pub fn new(seed: u64) -> Self {
        let mut x = seed;
        let s = [
            splitmix64(&mut x),
            splitmix64(&mut x),
            splitmix64(&mut x),
            splitmix64(&mut x),
        ];
        Rng { s }
    }
    /// independent stream for (seed, label)
    pub fn stream(seed: u64, label: &str) -> Self {
        let mut x = seed ^ hash_label(label).rotate_left(17);
        let a = splitmix64(&mut x);
        Rng::new(a ^ hash_label(label))
    }
    pub fn next_u64(&mut self) -> u64 {
        let result = self.s[1].wrapping_mul(5).rotate_left(7).wrapping_mul(9);
        let t = self.s[1] << 17;
        self.s[2] ^= self.s[0];
        self.s[3] ^= self.s[1];
        self.s[1] ^= self.s[2];
        self.s[0] ^= self.s[3];
        self.s[2] ^= t;
        self.s[3] = self.s[3].rotate_left(45);
        result
    }
    /// uniform in 0..n (n>0)
    pub fn below(&mut self, n: u64) -> u64 {
        if n <= 1 {
            return 0;
        }
        self.next_u64() % n
    }
    pub fn usize(&mut self, n: usize) -> usize {
        self.below(n as u64) as usize
    }
    pub fn range(&mut self, lo: i64, hi_incl: i64) -> i64 {
        lo + self.below((hi_incl - lo + 1) as u64) as i64
    }
    pub fn chance(&mut self, num: u64, den: u64) -> bool {
        self.below(den) < num
    }
    pub fn pick<'a, T>(&mut self, v: &'a [T]) -> &'a T {
        &v[self.usize(v.len())]
    }
    /// weighted choice: returns index
    pub fn weighted(&mut self, w: &[u32]) -> usize {
        let total: u64 = w.iter().map(|x| *x as u64).sum();
        if total == 0 {
            return 0;
        }
        let mut r = self.below(total);
        for (i, x) in w.iter().enumerate() {
            if r < *x as u64 {
                return i;
            }
            r -= *x as u64;
        }
        w.len() - 1
    }
    pub fn shuffle<T>(&mut self, v: &mut [T]) {
        for i in (1..v.len()).rev() {
            let j = self.usize(i + 1);
            v.swap(i, j);
        }
    }
}

// ---------------------------------------------------------------------------------------
// violations and reports
// ---------------------------------------------------------------------------------------
#[derive(Clone, Debug, Serialize, Deserialize, PartialEq)]
pub struct Violation {
    pub property: String,
    /// clause/shape, all concrete ids abstracted (DESIGN §5)
    pub fingerprint: String,
    /// human readable detail with concrete values
    pub detail: String,
    /// index of the step at which the oracle fired
    pub step: usize,
}

#[derive(Clone, Debug, Default, Serialize, Deserialize)]
pub struct RunReport {
    pub seed: u64,
    pub engine: String,
    pub violations: Vec<Violation>,
    /// fault kind -> number of times it actually fired
    pub faults: BTreeMap<String, u64>,
    /// probe name -> hits
    pub probes: BTreeMap<String, u64>,
    /// hash of the sequence of (node, step kind, message kind, fault kind) executed
    pub sched_sig: String,
    /// hash of the full event log (determinism self-check)
    pub log_hash: String,
    /// at least one operation of the kind the property speaks about completed
    pub nontrivial: bool,
    pub steps: usize,
    pub sim_time_ms: i64,
    /// distinct content digests observed (hex, truncated)
    pub states: Vec<String>,
    /// harness-level trouble (never a violation): settle timeouts, unexpected start failure...
    pub harness_errors: Vec<String>,
    pub wall_ms: u64,
}

/// Event log: every line hashed; schedule-signature lines hashed separately.
pub struct EvLog {
    pub lines: Vec<String>,
    hasher: blake3::Hasher,
    sched: blake3::Hasher,
    pub keep: bool,
    pub echo: bool,
}
impl EvLog {
    pub fn new(keep: bool) -> Self {
        EvLog {
            lines: vec![],
            hasher: blake3::Hasher::new(),
            sched: blake3::Hasher::new(),
            keep,
            echo: std::env::var("DSIM_ECHO").is_ok(),
        }
    }
    pub fn log(&mut self, line: impl AsRef<str>) {
        let l = line.as_ref();
        self.hasher.update(l.as_bytes());
        self.hasher.update(b"\n");
        if self.echo {
            eprintln!("[ev] {l}");
        }
        if self.keep {
            self.lines.push(l.to_string());
        }
    }
    /// a line that is part of the schedule signature (abstract: no ids, no values)
    pub fn sched(&mut self, line: impl AsRef<str>) {
        let l = line.as_ref();
        self.sched.update(l.as_bytes());
        self.sched.update(b"\n");
        self.log(format!("S {l}"));
    }
    pub fn log_hash(&self) -> String {
        self.hasher.finalize().to_hex()[..16].to_string()
    }
    pub fn sched_sig(&self) -> String {
        self.sched.finalize().to_hex()[..16].to_string()
    }
}

pub fn hex(b: &[u8]) -> String {
    let mut s = String::with_capacity(b.len() * 2);
    for x in b {
        s.push_str(&format!("{:02x}", x));
    }
    s
}
pub fn short(b: &[u8]) -> String {
    hex(&b[..b.len().min(6)])
}

pub fn bump(m: &mut BTreeMap<String, u64>, k: &str) {
    *m.entry(k.to_string()).or_insert(0) += 1;
}
pub fn bump_by(m: &mut BTreeMap<String, u64>, k: &str, n: u64) {
    *m.entry(k.to_string()).or_insert(0) += n;
}

/// base time of every simulation: 2023-11-14T22:13:20Z, a few hours before a day boundary
pub const T0: i64 = 1_700_000_000_000;
pub const DAY_MS: i64 = 86_400_000;
pub fn day_of(t: i64) -> i64 {
    t.div_euclid(DAY_MS) * DAY_MS
}

static PANICS: std::sync::Mutex<Vec<String>> = std::sync::Mutex::new(Vec::new());
pub fn note_panic(first_line: &str) {
    if let Ok(mut p) = PANICS.lock() {
        p.push(first_line.to_string());
    }
}
pub fn take_panics() -> Vec<String> {
    match PANICS.lock() {
        Ok(mut p) => std::mem::take(&mut *p),
        Err(_) => vec![],
    }
}

/// the first `n` characters of a text (never splits a character)
pub fn cut(s: &str, n: usize) -> String {
    s.chars().take(n).collect()
}
