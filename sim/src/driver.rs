//! Orchestration: seeded search across child processes, minimisation, replay files, known findings,
//! evidence. One child process = one simulated run (so that HashMap seeds, thread-locals and every
//! process-global hook start from the same state for a given seed).
use crate::kit::{RunReport, Violation};
use crate::world::Trace;
use serde::{Deserialize, Serialize};
use std::collections::{BTreeMap, BTreeSet};
use std::io::Read;
use std::path::{Path, PathBuf};
use std::process::{Child, Command, Stdio};
use std::time::{Duration, Instant};

pub const DEFAULT_SEED: u64 = 20260923;

pub struct PropSpec {
    pub id: &'static str,
    pub engine: &'static str,
    /// wall-clock budget of the search phase, seconds (quick, thorough)
    pub budget_s: (u64, u64),
    pub level: &'static str,
    pub rule: &'static str,
    pub assumptions: &'static [&'static str],
    pub real: &'static [&'static str],
    pub stub: &'static [&'static str],
    /// seeds executed per child process (1 for engines whose runs depend on process-level state such as HashMap seeds)
    pub batch: usize,
}

/// where replay files and evidence are written: /verif, unless DSIM_OUT names a scratch directory
/// (used when the checks are run against a deliberately broken tree, so that nothing committed is overwritten)
pub fn out_root() -> PathBuf {
    if let Ok(p) = std::env::var("DSIM_OUT") {
        let p: PathBuf = p.into();
        let _ = std::fs::create_dir_all(p.join("replays"));
        let _ = std::fs::create_dir_all(p.join("evidence"));
        return p;
    }
    verif_root()
}

pub fn verif_root() -> PathBuf {
    if let Ok(p) = std::env::var("DSIM_ROOT") {
        return p.into();
    }
    // target/debug/dsim -> sim -> verif
    let exe = std::env::current_exe().unwrap();
    exe.parent().unwrap().parent().unwrap().parent().unwrap().parent().unwrap().to_path_buf()
}

fn preload_path() -> PathBuf {
    let mut p = verif_root();
    p.push("preload/detrand.so");
    p
}

pub fn hash_seed_for(seed: u64) -> u64 {
    let mut r = crate::kit::Rng::stream(seed, "hashseed");
    r.next_u64() >> 1
}

fn child_cmd(args: &[String], hashseed: u64) -> Command {
    let exe = std::env::current_exe().unwrap();
    let mut c = Command::new(exe);
    c.args(args);
    let pre = preload_path();
    if pre.exists() {
        c.env("LD_PRELOAD", pre);
        c.env("DETRAND_SEED", hashseed.to_string());
    }
    c.env("RUST_BACKTRACE", "0");
    c.stdin(Stdio::null());
    c.stdout(Stdio::piped());
    c.stderr(Stdio::piped());
    c
}

pub struct JobResult {
    pub label: String,
    pub report: Option<RunReport>,
    pub trace: Option<Trace>,
    pub stderr_tail: String,
    pub exit: Option<i32>,
}

enum Job {
    Seed(u64),
    /// seed run on a named engine (checks served by several engines)
    SeedOn(String, u64),
    /// `count` consecutive seeds in one child process
    Batch(u64, usize),
    /// the same on a named engine
    BatchOn(String, u64, usize),
    TraceFile(PathBuf, String),
}

fn parse_child_output_all(out: &str) -> Vec<(Option<RunReport>, Option<Trace>)> {
    let mut all = vec![];
    let mut tr: Option<Trace> = None;
    for l in out.lines() {
        if let Some(j) = l.strip_prefix("TRACE ") {
            tr = serde_json::from_str(j).ok();
        } else if let Some(j) = l.strip_prefix("REPORT ") {
            let rep: Option<RunReport> = serde_json::from_str(j).ok();
            all.push((rep, tr.take()));
        }
    }
    all
}
fn parse_child_output(out: &str) -> (Option<RunReport>, Option<Trace>) {
    parse_child_output_all(out).pop().unwrap_or((None, None))
}

struct Running {
    child: Child,
    label: String,
    started: Instant,
}

fn finish_child(r: Running, timed_out: bool) -> Vec<JobResult> {
    let Running { mut child, label, .. } = r;
    let pid = child.id();
    if timed_out {
        let _ = child.kill();
    }
    let mut out = String::new();
    let mut err = String::new();
    if let Some(mut o) = child.stdout.take() {
        let _ = o.read_to_string(&mut out);
    }
    if let Some(mut e) = child.stderr.take() {
        let _ = e.read_to_string(&mut err);
    }
    let status = child.wait().ok();
    // a child that was killed or that crashed leaves its run directories behind
    if let Ok(rd) = std::fs::read_dir("/dev/shm") {
        let prefix = format!("dsim-{pid}-");
        for e in rd.flatten() {
            if e.file_name().to_string_lossy().starts_with(&prefix) {
                let _ = std::fs::remove_dir_all(e.path());
            }
        }
    }
    let tail: Vec<&str> = err.lines().rev().take(8).collect();
    let stderr_tail = tail.into_iter().rev().collect::<Vec<_>>().join("\n");
    let exit = if timed_out { None } else { status.and_then(|s| s.code()) };
    let all = parse_child_output_all(&out);
    if all.is_empty() {
        return vec![JobResult { label, report: None, trace: None, stderr_tail, exit }];
    }
    let many = all.len() > 1;
    all.into_iter()
        .map(|(report, trace)| JobResult {
            label: if many { format!("seed {}", report.as_ref().map(|r| r.seed).unwrap_or(0)) } else { label.clone() },
            report,
            trace,
            stderr_tail: stderr_tail.clone(),
            exit,
        })
        .collect()
}

/// run jobs on `workers` child processes; stops launching when `deadline` passes
fn run_pool(
    engine: &str,
    prop: &str,
    thorough: bool,
    jobs: Vec<Job>,
    workers: usize,
    deadline: Option<Instant>,
    child_timeout: Duration,
) -> Vec<JobResult> {
    let mut results = vec![];
    let mut running: Vec<Running> = vec![];
    let mut it = jobs.into_iter();
    let mut exhausted = false;
    loop {
        while !exhausted && running.len() < workers {
            if let Some(d) = deadline {
                if Instant::now() > d {
                    exhausted = true;
                    break;
                }
            }
            match it.next() {
                Some(Job::Seed(s)) => {
                    let mut args = vec![
                        "one".to_string(),
                        engine.to_string(),
                        prop.to_string(),
                        s.to_string(),
                    ];
                    if thorough {
                        args.push("--thorough".into());
                    }
                    let child = child_cmd(&args, hash_seed_for(s)).spawn().expect("spawn child");
                    running.push(Running { child, label: format!("seed {s}"), started: Instant::now() });
                }
                Some(Job::SeedOn(eng, s)) => {
                    let mut args = vec!["one".to_string(), eng.clone(), prop.to_string(), s.to_string()];
                    if thorough {
                        args.push("--thorough".into());
                    }
                    let child = child_cmd(&args, hash_seed_for(s)).spawn().expect("spawn child");
                    running.push(Running { child, label: format!("seed {s} ({eng})"), started: Instant::now() });
                }
                Some(Job::Batch(first, count)) => {
                    let mut args = vec!["many".to_string(), engine.to_string(), prop.to_string(), first.to_string(), count.to_string()];
                    if thorough {
                        args.push("--thorough".into());
                    }
                    let child = child_cmd(&args, hash_seed_for(first)).spawn().expect("spawn child");
                    running.push(Running { child, label: format!("batch {first}+{count}"), started: Instant::now() });
                }
                Some(Job::BatchOn(eng, first, count)) => {
                    let mut args = vec!["many".to_string(), eng.clone(), prop.to_string(), first.to_string(), count.to_string()];
                    if thorough {
                        args.push("--thorough".into());
                    }
                    let child = child_cmd(&args, hash_seed_for(first)).spawn().expect("spawn child");
                    running.push(Running { child, label: format!("batch {first}+{count} ({eng})"), started: Instant::now() });
                }
                Some(Job::TraceFile(p, label)) => {
                    let hs = std::fs::read_to_string(&p)
                        .ok()
                        .and_then(|s| serde_json::from_str::<Trace>(&s).ok())
                        .map(|t| hash_seed_for(t.seed))
                        .unwrap_or(0);
                    let args = vec!["exec".to_string(), p.to_string_lossy().to_string()];
                    let child = child_cmd(&args, hs).spawn().expect("spawn child");
                    running.push(Running { child, label, started: Instant::now() });
                }
                None => {
                    exhausted = true;
                }
            }
        }
        if running.is_empty() && exhausted {
            break;
        }
        let mut i = 0;
        let mut progressed = false;
        while i < running.len() {
            let done = matches!(running[i].child.try_wait(), Ok(Some(_)));
            let timed_out = running[i].started.elapsed() > child_timeout;
            if done || timed_out {
                let r = running.swap_remove(i);
                results.extend(finish_child(r, timed_out && !done));
                progressed = true;
            } else {
                i += 1;
            }
        }
        if !progressed {
            std::thread::sleep(Duration::from_millis(2));
        }
    }
    results
}

// ---------------------------------------------------------------------------------------
// known findings
// ---------------------------------------------------------------------------------------
#[derive(Clone, Debug, Serialize, Deserialize)]
pub struct KnownFinding {
    pub property: String,
    pub fingerprint: String,
    pub status: String,
    #[serde(default)]
    pub commit: Option<String>,
    pub description: String,
    #[serde(default)]
    pub replay: Option<String>,
}

pub fn load_known() -> Vec<KnownFinding> {
    let mut p = verif_root();
    p.push("known_findings.json");
    match std::fs::read_to_string(&p) {
        Ok(s) => serde_json::from_str(&s).unwrap_or_else(|e| {
            eprintln!("known_findings.json unreadable: {e}");
            std::process::exit(2)
        }),
        Err(_) => vec![],
    }
}

fn slug(s: &str) -> String {
    s.chars()
        .map(|c| if c.is_ascii_alphanumeric() { c } else { '_' })
        .collect()
}

// ---------------------------------------------------------------------------------------
// minimisation (delta debugging on the step list, candidates evaluated in parallel children)
// ---------------------------------------------------------------------------------------
fn tmp_dir() -> PathBuf {
    let p: PathBuf = format!("/dev/shm/dsim-tmp-{}", std::process::id()).into();
    let _ = std::fs::create_dir_all(&p);
    p
}

fn eval_candidates(cands: &[Trace], fp: &str) -> Vec<bool> {
    let dir = tmp_dir();
    let mut jobs = vec![];
    for (i, t) in cands.iter().enumerate() {
        let mut p = dir.clone();
        p.push(format!("cand-{i}.json"));
        std::fs::write(&p, serde_json::to_string(t).unwrap()).unwrap();
        jobs.push(Job::TraceFile(p, format!("{i}")));
    }
    let res = run_pool("", "", false, jobs, 16, None, Duration::from_secs(120));
    let mut out = vec![false; cands.len()];
    for r in res {
        let i: usize = r.label.parse().unwrap();
        if let Some(rep) = r.report {
            out[i] = rep.violations.iter().any(|v| v.fingerprint == fp);
        }
    }
    out
}

pub fn minimise(mut t: Trace, fp: &str, budget: Duration) -> Trace {
    let t0 = Instant::now();
    let mut evals = 0usize;
    let mut n = 2usize;
    while t.steps.len() >= 2 && t0.elapsed() < budget && evals < 400 {
        let len = t.steps.len();
        let chunk = (len + n - 1) / n;
        let mut cands = vec![];
        let mut start = 0;
        while start < len {
            let end = (start + chunk).min(len);
            let mut c = t.clone();
            c.steps.drain(start..end);
            cands.push(c);
            start = end;
        }
        evals += cands.len();
        let res = eval_candidates(&cands, fp);
        if let Some(i) = res.iter().position(|x| *x) {
            t = cands.swap_remove(i);
            n = (n - 1).max(2);
        } else if chunk == 1 {
            break;
        } else {
            n = (n * 2).min(len);
        }
    }
    t
}

// ---------------------------------------------------------------------------------------
// check
// ---------------------------------------------------------------------------------------
pub struct CheckOutcome {
    pub exit: i32,
}

pub fn check(spec: &PropSpec, thorough: bool, base_seed: u64, max_runs: Option<usize>) -> CheckOutcome {
    let t0 = Instant::now();
    let prop = spec.id;
    let budget = Duration::from_secs(if thorough { spec.budget_s.1 } else { spec.budget_s.0 });
    let budget = match std::env::var("DSIM_BUDGET_S").ok().and_then(|s| s.parse::<u64>().ok()) {
        Some(s) => Duration::from_secs(s),
        None => budget,
    };
    let workers: usize = std::env::var("DSIM_WORKERS").ok().and_then(|s| s.parse().ok()).unwrap_or(16);
    let dir = tmp_dir();
    // directed scenarios first, then seeds until the budget is spent
    let mut jobs = vec![];
    let engines: Vec<&str> = spec.engine.split(',').collect();
    let mut directed = vec![];
    for e in &engines {
        directed.extend(crate::engines::directed(e, prop));
    }
    let n_directed = directed.len();
    for (i, t) in directed.iter().enumerate() {
        let mut p = dir.clone();
        p.push(format!("directed-{i}.json"));
        std::fs::write(&p, serde_json::to_string(t).unwrap()).unwrap();
        jobs.push(Job::TraceFile(p, format!("directed {i}: {}", t.note.clone().unwrap_or_default())));
    }
    // regression traces: minimised replays of defects that were repaired (or re-shaped); they run with the
    // property's oracle armed and must stay silent (or map to a known finding)
    let mut n_regress = 0;
    {
        let mut rd = verif_root();
        rd.push("regress");
        if let Ok(entries) = std::fs::read_dir(&rd) {
            let mut files: Vec<PathBuf> = entries
                .filter_map(|e| e.ok().map(|e| e.path()))
                .filter(|p| {
                    p.file_name()
                        .and_then(|n| n.to_str())
                        .map(|n| n.starts_with(&format!("{prop}-")) && n.ends_with(".json"))
                        .unwrap_or(false)
                })
                .collect();
            files.sort();
            for f in files {
                if let Ok(txt) = std::fs::read_to_string(&f) {
                    if let Ok(mut t) = serde_json::from_str::<Trace>(&txt) {
                        t.expect_fingerprint = None;
                        let mut p = dir.clone();
                        p.push(format!("regress-{n_regress}.json"));
                        std::fs::write(&p, serde_json::to_string(&t).unwrap()).unwrap();
                        jobs.push(Job::TraceFile(p, format!("regress {}", f.file_name().unwrap().to_string_lossy())));
                        n_regress += 1;
                    }
                }
            }
        }
    }
    let first_seed = base_seed.wrapping_mul(1_000_003);
    let cap = max_runs.unwrap_or(if thorough { 2_000_000 } else { 200_000 });
    if spec.batch > 1 && engines.len() == 1 {
        let mut i = 0u64;
        while i < cap as u64 {
            jobs.push(Job::Batch(first_seed.wrapping_add(i), spec.batch));
            i += spec.batch as u64;
        }
    }
    for i in 0..cap as u64 {
        if spec.batch > 1 && engines.len() == 1 {
            break;
        }
        if engines.len() > 1 {
            let e = engines[(i as usize) % engines.len()];
            // the first engine of a multi-engine check may run in batches
            if spec.batch > 1 && e == engines[0] {
                jobs.push(Job::BatchOn(e.to_string(), first_seed.wrapping_add(i.wrapping_mul(spec.batch as u64 + 1)), spec.batch));
            } else {
                jobs.push(Job::SeedOn(e.to_string(), first_seed.wrapping_add(i)));
            }
        } else {
            jobs.push(Job::Seed(first_seed.wrapping_add(i)));
        }
    }
    let results = run_pool(
        engines[0],
        prop,
        thorough,
        jobs,
        workers,
        Some(t0 + budget),
        Duration::from_secs(180),
    );
    // A run that hit a wall-clock limit (settle / start / child time-out) is not a verdict: on a loaded machine the
    // helper threads of a node may simply not have been scheduled. Such runs are repeated alone, a few at a time, with
    // a longer limit; only what fails again is reported as a harness error.
    let timing = |r: &JobResult| -> bool {
        match &r.report {
            None => true,
            Some(rep) => rep.harness_errors.iter().any(|e| e.contains("hung") || e.contains("HUNG") || e.contains("Settle") || e.contains("Hung") || e.ends_with(": Run")),
        }
    };
    let mut results = results;
    let mut retry_jobs = vec![];
    let mut kept = vec![];
    for r in results.drain(..) {
        let seed_of = |label: &str| -> Option<(u64, Option<String>)> {
            let rest = label.strip_prefix("seed ")?;
            let mut it = rest.split(' ');
            let s: u64 = it.next()?.parse().ok()?;
            let eng = it.next().map(|e| e.trim_matches(|c| c == '(' || c == ')').to_string());
            Some((s, eng))
        };
        if timing(&r) {
            if let Some((s, eng)) = seed_of(&r.label) {
                retry_jobs.push(match eng {
                    Some(e) => Job::SeedOn(e, s),
                    None => Job::Seed(s),
                });
                continue;
            }
        }
        kept.push(r);
    }
    let n_retried = retry_jobs.len();
    if !retry_jobs.is_empty() {
        std::env::set_var("DSIM_HANG_S", "120");
        // at most 200 repeats: beyond that the machine, not the run, is the problem
        retry_jobs.truncate(200);
        let again = run_pool(engines[0], prop, thorough, retry_jobs, workers.min(4), None, Duration::from_secs(600));
        kept.extend(again);
    }
    let results = kept;
    let search_wall = t0.elapsed();

    // aggregate
    let mut evaluations = 0u64;
    let mut nontrivial_sigs: BTreeSet<String> = BTreeSet::new();
    let mut faults: BTreeMap<String, u64> = BTreeMap::new();
    let mut probes: BTreeMap<String, u64> = BTreeMap::new();
    let mut states: BTreeSet<String> = BTreeSet::new();
    let mut sim_ms: i64 = 0;
    let mut steps_total: u64 = 0;
    let mut harness_errors: Vec<String> = vec![];
    let mut by_fp: BTreeMap<String, (Violation, Trace, u64)> = BTreeMap::new();
    let mut samples: Vec<serde_json::Value> = vec![];
    let mut seeds_run = 0u64;
    for r in &results {
        match &r.report {
            Some(rep) => {
                evaluations += 1;
                if r.label.starts_with("seed") || r.label.starts_with("batch") {
                    seeds_run += 1;
                }
                if rep.nontrivial {
                    nontrivial_sigs.insert(rep.sched_sig.clone());
                }
                for (k, v) in &rep.faults {
                    crate::kit::bump_by(&mut faults, k, *v);
                }
                for (k, v) in &rep.probes {
                    crate::kit::bump_by(&mut probes, k, *v);
                }
                for s in &rep.states {
                    states.insert(s.clone());
                }
                sim_ms += rep.sim_time_ms;
                steps_total += rep.steps as u64;
                for e in &rep.harness_errors {
                    harness_errors.push(format!("{}: {e}", r.label));
                }
                for v in &rep.violations {
                    if v.property != prop {
                        continue;
                    }
                    if let Some(t) = &r.trace {
                        let e = by_fp.entry(v.fingerprint.clone()).or_insert((v.clone(), t.clone(), 0));
                        e.2 += 1;
                        // prefer the shortest failing trace as the starting point of minimisation
                        if t.steps.len() < e.1.steps.len() {
                            e.0 = v.clone();
                            e.1 = t.clone();
                        }
                    }
                }
                if samples.len() < 3 && rep.nontrivial {
                    if let Some(t) = &r.trace {
                        samples.push(serde_json::json!({
                            "label": r.label,
                            "cfg": t.cfg,
                            "steps": t.steps.iter().take(40).collect::<Vec<_>>(),
                            "schedule_signature": rep.sched_sig,
                            "violations": rep.violations.iter().map(|v| v.fingerprint.clone()).collect::<Vec<_>>(),
                        }));
                    }
                }
            }
            None => {
                harness_errors.push(format!(
                    "{}: child produced no report (exit {:?}): {}",
                    r.label, r.exit, r.stderr_tail
                ));
            }
        }
    }

    // triage against known findings
    let known = load_known();
    let mut exit = 0;
    let mut known_seen: Vec<String> = vec![];
    let mut new_violations = 0;
    let mut out_lines: Vec<String> = vec![];
    for (fp, (v, trace, count)) in &by_fp {
        let open = known.iter().find(|k| k.property == prop && &k.fingerprint == fp && k.status == "open");
        if let Some(k) = open {
            out_lines.push(format!("KNOWN-FINDING: property={prop} {} [{fp}] ({count} runs)", k.description));
            known_seen.push(fp.clone());
            continue;
        }
        // new violation: minimise, write replay
        let min = minimise(trace.clone(), fp, Duration::from_secs(120));
        let mut min = min;
        min.expect_fingerprint = Some(fp.clone());
        min.note = Some(format!("{} :: {}", fp, v.detail));
        let mut p = out_root();
        p.push("replays");
        let _ = std::fs::create_dir_all(&p);
        p.push(format!("{}-{}.json", prop, slug(&fp[prop.len() + 1..])));
        std::fs::write(&p, serde_json::to_string_pretty(&min).unwrap()).unwrap();
        // the replay must reproduce in a fresh process
        let ok = eval_candidates(&[min.clone()], fp)[0];
        out_lines.push(format!("  violation {fp}: {} ({} runs, minimised {} -> {} steps, replay reproduces: {ok})", v.detail, count, trace.steps.len(), min.steps.len()));
        out_lines.push(format!("VIOLATION property={prop} replay={}", p.display()));
        new_violations += 1;
        exit = 1;
    }
    for l in &out_lines {
        println!("{l}");
    }
    if !harness_errors.is_empty() {
        for e in harness_errors.iter().take(10) {
            eprintln!("HARNESS-ERROR {e}");
        }
        if exit == 0 {
            exit = 2;
        }
    }
    if evaluations == 0 {
        eprintln!("HARNESS-ERROR no run completed");
        exit = 2;
    }

    // evidence
    let wall = t0.elapsed().as_secs_f64();
    let runs_per_hour = if search_wall.as_secs_f64() > 0.0 {
        (evaluations as f64 / search_wall.as_secs_f64() * 3600.0) as u64
    } else {
        0
    };
    let ev = serde_json::json!({
        "property_id": prop,
        "tier": if thorough { "thorough" } else { "quick" },
        "seed": base_seed,
        "level": spec.level,
        "coverage": {
            "evaluations": evaluations,
            "distinct_nontrivial": nontrivial_sigs.len(),
            "rule": spec.rule,
            "samples": samples,
            "directed_scenarios": n_directed,
            "runs_repeated_after_a_time_limit": n_retried,
            "regression_traces": n_regress,
            "seeded_runs": seeds_run,
            "first_seed": first_seed,
            "runs_per_hour": runs_per_hour,
            "simulated_time_ms": sim_ms,
            "steps_executed": steps_total,
            "faults_fired": faults,
            "probes": probes,
            "distinct_states": states.len(),
            "components": { "real": spec.real, "stub": spec.stub },
            "known_findings_seen": known_seen,
            "new_violations": new_violations,
            "harness_errors": harness_errors.len(),
            "workers": workers,
            "search_wall_s": search_wall.as_secs_f64(),
        },
        "assumptions": spec.assumptions,
        "wall_s": wall,
        "violations": by_fp.len(),
    });
    let mut p = out_root();
    p.push("evidence");
    let _ = std::fs::create_dir_all(&p);
    p.push(format!("{prop}.json"));
    std::fs::write(&p, serde_json::to_string_pretty(&ev).unwrap()).unwrap();
    if thorough {
        // the evidence of the last thorough run is also kept aside (the main file is rewritten by every run)
        let mut t = out_root();
        t.push("evidence");
        t.push("thorough");
        let _ = std::fs::create_dir_all(&t);
        t.push(format!("{prop}.json"));
        let _ = std::fs::write(&t, serde_json::to_string_pretty(&ev).unwrap());
    }
    println!(
        "{prop}: {} runs ({} directed), {} distinct non-trivial schedules, {} states, {} fingerprints ({} new), {:.1}s",
        evaluations, n_directed, nontrivial_sigs.len(), states.len(), by_fp.len(), new_violations, wall
    );
    let _ = std::fs::remove_dir_all(tmp_dir());
    CheckOutcome { exit }
}

/// replay a file in a fresh child; exit 1 + VIOLATION line if the recorded fingerprint reproduces
pub fn replay(path: &Path) -> i32 {
    let s = match std::fs::read_to_string(path) {
        Ok(s) => s,
        Err(e) => {
            eprintln!("cannot read {path:?}: {e}");
            return 2;
        }
    };
    let t: Trace = match serde_json::from_str(&s) {
        Ok(t) => t,
        Err(e) => {
            eprintln!("bad trace: {e}");
            return 2;
        }
    };
    let args = vec!["exec".to_string(), path.to_string_lossy().to_string(), "--log".to_string()];
    let out = child_cmd(&args, hash_seed_for(t.seed)).output().expect("spawn");
    let stdout = String::from_utf8_lossy(&out.stdout).to_string();
    let (rep, _) = parse_child_output(&stdout);
    let Some(rep) = rep else {
        eprintln!("replay produced no report: {}", String::from_utf8_lossy(&out.stderr));
        return 2;
    };
    for l in stdout.lines() {
        if l.starts_with("LOG ") {
            println!("{}", &l[4..]);
        }
    }
    println!("replay: schedule_signature={} log_hash={}", rep.sched_sig, rep.log_hash);
    let mut hit = false;
    for v in &rep.violations {
        println!("  {} :: {} (step {})", v.fingerprint, v.detail, v.step);
        if Some(&v.fingerprint) == t.expect_fingerprint.as_ref() || t.expect_fingerprint.is_none() {
            hit = true;
        }
    }
    if hit {
        println!("VIOLATION property={} replay={}", t.property, path.display());
        1
    } else {
        println!("not reproduced: expected {:?}", t.expect_fingerprint);
        0
    }
}

/// determinism self-check: every seed twice, in separate processes; full event-log hashes must agree
pub fn determinism(engine: &str, prop: &str, seeds: usize, base_seed: u64, thorough: bool) -> i32 {
    let first = base_seed.wrapping_mul(1_000_003);
    let mk = || (0..seeds as u64).map(|i| Job::Seed(first.wrapping_add(i))).collect::<Vec<_>>();
    let a = run_pool(engine, prop, thorough, mk(), 16, None, Duration::from_secs(180));
    let b = run_pool(engine, prop, thorough, mk(), 7, None, Duration::from_secs(180));
    let idx = |v: &Vec<JobResult>| -> BTreeMap<String, (String, String, usize)> {
        v.iter()
            .filter_map(|r| {
                r.report.as_ref().map(|rep| {
                    (r.label.clone(), (rep.log_hash.clone(), rep.sched_sig.clone(), rep.violations.len()))
                })
            })
            .collect()
    };
    let (ia, ib) = (idx(&a), idx(&b));
    let mut diffs = 0;
    for (k, va) in &ia {
        match ib.get(k) {
            Some(vb) if va == vb => {}
            other => {
                diffs += 1;
                if diffs <= 10 {
                    println!("DIFF {k}: {va:?} vs {other:?}");
                }
            }
        }
    }
    println!(
        "determinism {engine}/{prop}: {} seeds x2, {} completed both, {diffs} differing",
        seeds,
        ia.len().min(ib.len())
    );
    if diffs > 0 || ia.len() != seeds || ib.len() != seeds {
        2
    } else {
        0
    }
}
