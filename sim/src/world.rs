//! Shared run state: nodes, event log, report; trace container.
use crate::kit::{bump, EvLog, RunReport, Violation};
use crate::node::SimNode;
use discret::verif as dv;
use serde::{Deserialize, Serialize};
use std::path::PathBuf;

#[derive(Clone, Debug, Serialize, Deserialize)]
pub struct Trace {
    pub engine: String,
    pub property: String,
    pub seed: u64,
    pub cfg: serde_json::Value,
    pub steps: Vec<serde_json::Value>,
    /// set in replay files: the fingerprint this trace must reproduce
    #[serde(default)]
    pub expect_fingerprint: Option<String>,
    #[serde(default)]
    pub note: Option<String>,
}

pub struct World {
    pub root: PathBuf,
    pub nodes: Vec<SimNode>,
    pub log: EvLog,
    pub report: RunReport,
    pub step_no: usize,
    pub states: std::collections::BTreeSet<String>,
}

static RUN_COUNTER: std::sync::atomic::AtomicU64 = std::sync::atomic::AtomicU64::new(0);

impl World {
    pub fn new(engine: &str, seed: u64, keep_log: bool) -> World {
        let n = RUN_COUNTER.fetch_add(1, std::sync::atomic::Ordering::SeqCst);
        let root: PathBuf = format!("/dev/shm/dsim-{}-{}", std::process::id(), n).into();
        let _ = std::fs::remove_dir_all(&root);
        std::fs::create_dir_all(&root).expect("cannot create run directory under /dev/shm");
        // process-global hooks: fresh state for this run
        dv::set_entropy(Some(seed ^ 0xD15C_2E70));
        dv::disarm_faults();
        dv::reset_fault_counters();
        let _ = dv::take_probes();
        let _ = dv::take_batches();
        for i in 0..dv::MAX_NODES {
            dv::inflight_reset(i);
            dv::set_hold(i, 0);
        }
        let mut log = EvLog::new(keep_log);
        log.log(format!("run engine={engine} seed={seed}"));
        World {
            root,
            nodes: vec![],
            log,
            report: RunReport {
                seed,
                engine: engine.to_string(),
                ..Default::default()
            },
            step_no: 0,
            states: Default::default(),
        }
    }

    pub fn violation(&mut self, property: &str, fingerprint: &str, detail: String) {
        let fp = format!("{property}/{fingerprint}");
        self.log.log(format!("VIOLATION {fp} :: {detail}"));
        // one report per fingerprint per run
        if self.report.violations.iter().any(|v| v.fingerprint == fp) {
            return;
        }
        self.report.violations.push(Violation {
            property: property.to_string(),
            fingerprint: fp,
            detail,
            step: self.step_no,
        });
    }

    pub fn harness_error(&mut self, what: String) {
        self.log.log(format!("HARNESS-ERROR {what}"));
        self.report.harness_errors.push(what);
    }

    pub fn fault(&mut self, kind: &str) {
        bump(&mut self.report.faults, kind);
    }
    pub fn probe(&mut self, name: &str) {
        bump(&mut self.report.probes, name);
    }

    pub fn two(&mut self, i: usize, j: usize) -> (&mut SimNode, &mut SimNode) {
        assert!(i != j);
        if i < j {
            let (a, b) = self.nodes.split_at_mut(j);
            (&mut a[i], &mut b[0])
        } else {
            let (a, b) = self.nodes.split_at_mut(i);
            (&mut b[0], &mut a[j])
        }
    }

    pub fn finish(mut self) -> (RunReport, Vec<String>) {
        let mut sim = 0i64;
        for n in &mut self.nodes {
            sim += n.clock - n.clock_start;
            if n.is_up() {
                let left = n.stop();
                if left != 0 {
                    self.report
                        .harness_errors
                        .push(format!("node {} left {} helper threads", n.name, left));
                }
            }
        }
        self.nodes.clear();
        let _ = std::fs::remove_dir_all(&self.root);
        for (k, v) in dv::take_probes() {
            crate::kit::bump_by(&mut self.report.probes, k, v);
        }
        self.report.sim_time_ms = sim;
        self.report.steps = self.step_no;
        self.report.sched_sig = self.log.sched_sig();
        self.report.log_hash = self.log.log_hash();
        self.report.states = self.states.iter().cloned().collect();
        dv::clear_clock();
        dv::set_entropy(None);
        (self.report, self.log.lines)
    }
}
