mod conn;
mod driver;
mod engines;
mod kit;
mod net;
mod node;
mod oracle;
mod world;

use std::path::PathBuf;

fn install_panic_hook() {
    std::panic::set_hook(Box::new(|i| {
        let msg = i.to_string();
        let first = msg.lines().next().unwrap_or("").to_string();
        crate::kit::note_panic(&first);
        if std::env::var("DSIM_PANICS").is_ok() {
            eprintln!("[panic] {first}");
        }
    }));
}

fn emit(trace: &world::Trace, rep: &kit::RunReport, lines: &[String], with_log: bool) {
    if with_log {
        for l in lines {
            println!("LOG {l}");
        }
    }
    println!("TRACE {}", serde_json::to_string(trace).unwrap());
    println!("REPORT {}", serde_json::to_string(rep).unwrap());
}

fn main() {
    let args: Vec<String> = std::env::args().collect();
    let flag = |f: &str| args.iter().any(|a| a == f);
    let opt = |f: &str| args.iter().position(|a| a == f).and_then(|i| args.get(i + 1)).cloned();
    let base_seed: u64 = std::env::var("VERIF_SEED")
        .ok()
        .and_then(|s| s.parse().ok())
        .unwrap_or(driver::DEFAULT_SEED);
    match args.get(1).map(|s| s.as_str()) {
        // one seeded run in this process
        Some("one") => {
            install_panic_hook();
            let engine = &args[2];
            let prop = &args[3];
            let seed: u64 = args[4].parse().expect("seed");
            let t0 = std::time::Instant::now();
            let trace = engines::generate(engine, prop, seed, flag("--thorough"));
            let (mut rep, lines) = engines::execute(&trace, flag("--log"));
            rep.wall_ms = t0.elapsed().as_millis() as u64;
            emit(&trace, &rep, &lines, flag("--log"));
        }
        // several seeded runs in this process (engines whose runs do not depend on process-level state)
        Some("many") => {
            install_panic_hook();
            let engine = &args[2];
            let prop = &args[3];
            let first: u64 = args[4].parse().expect("seed");
            let count: u64 = args[5].parse().expect("count");
            for i in 0..count {
                let t0 = std::time::Instant::now();
                let trace = engines::generate(engine, prop, first.wrapping_add(i), flag("--thorough"));
                let (mut rep, lines) = engines::execute(&trace, false);
                rep.wall_ms = t0.elapsed().as_millis() as u64;
                emit(&trace, &rep, &lines, false);
            }
        }
        // the directed scenarios of a property's engine, one trace per line
        Some("directed") => {
            for t in engines::directed(&args[2], &args[3]) {
                println!("{}", serde_json::to_string(&t).unwrap());
            }
        }
        Some("gen") => {
            let trace = engines::generate(&args[2], &args[3], args[4].parse().expect("seed"), flag("--thorough"));
            println!("{}", serde_json::to_string_pretty(&trace).unwrap());
        }
        // execute a trace file in this process
        Some("exec") => {
            install_panic_hook();
            let s = std::fs::read_to_string(&args[2]).expect("trace file");
            let trace: world::Trace = serde_json::from_str(&s).expect("trace json");
            let t0 = std::time::Instant::now();
            let (mut rep, lines) = engines::execute(&trace, flag("--log"));
            rep.wall_ms = t0.elapsed().as_millis() as u64;
            emit(&trace, &rep, &lines, flag("--log"));
        }
        Some("check") => {
            let prop = &args[2];
            let thorough = opt("--tier").map(|t| t == "thorough").unwrap_or(false)
                || std::env::var("VERIF_TIER").map(|t| t == "thorough").unwrap_or(false);
            if let Some(p) = opt("--replay") {
                std::process::exit(driver::replay(&PathBuf::from(p)));
            }
            let Some(spec) = engines::spec_for(prop) else {
                eprintln!("no check for {prop}");
                std::process::exit(2);
            };
            let max_runs = opt("--runs").and_then(|s| s.parse().ok());
            let out = driver::check(&spec, thorough, base_seed, max_runs);
            std::process::exit(out.exit);
        }
        Some("determinism") => {
            let engine = args.get(2).cloned().unwrap_or("repl".into());
            let prop = args.get(3).cloned().unwrap_or("all".into());
            let n: usize = opt("--seeds").and_then(|s| s.parse().ok()).unwrap_or(50);
            std::process::exit(driver::determinism(&engine, &prop, n, base_seed, flag("--thorough")));
        }
        _ => {
            eprintln!("usage: dsim check <Cxx> [--tier quick|thorough] [--replay file] | one <engine> <prop> <seed> | exec <trace> | gen <engine> <prop> <seed> | determinism <engine> <prop> --seeds N");
            std::process::exit(2);
        }
    }
}
