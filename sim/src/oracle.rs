//! Oracles over a node's storage, read through a read-only SQLCipher connection after a settle.
use crate::kit::hex;
use discret::verif as dv;
use discret::verif::Uid;
use rusqlite::Connection;
use std::collections::BTreeMap;

#[derive(Debug, Clone, PartialEq)]
pub struct NodeRow {
    pub id: Vec<u8>,
    pub room: Option<Vec<u8>>,
    pub cdate: i64,
    pub mdate: i64,
    pub entity: String,
    pub json: Option<String>,
    pub binary: Option<Vec<u8>>,
    pub author: Vec<u8>,
    pub signature: Vec<u8>,
    pub rowid: i64,
}
impl NodeRow {
    pub fn line(&self) -> String {
        format!(
            "N id={} room={} c={} m={} e={} j={} b={} a={} s={}",
            hex(&self.id),
            self.room.as_ref().map(|r| hex(r)).unwrap_or("-".into()),
            self.cdate,
            self.mdate,
            self.entity,
            self.json.clone().unwrap_or("-".into()),
            self.binary.as_ref().map(|b| hex(b)).unwrap_or("-".into()),
            &hex(&self.author)[..12],
            &hex(&self.signature)[..16]
        )
    }
}

#[derive(Debug, Clone, PartialEq)]
pub struct EdgeRow {
    /// the target row is not stored on this node: the reference is invisible to every query
    pub dangling: bool,
    pub src: Vec<u8>,
    pub src_entity: String,
    pub label: String,
    pub dest: Vec<u8>,
    pub cdate: i64,
    pub author: Vec<u8>,
    pub signature: Vec<u8>,
}
impl EdgeRow {
    pub fn line(&self) -> String {
        format!(
            "E src={} e={} l={} dest={} c={} a={} s={}",
            hex(&self.src),
            self.src_entity,
            self.label,
            hex(&self.dest),
            self.cdate,
            &hex(&self.author)[..12],
            &hex(&self.signature)[..16]
        )
    }
}

#[derive(Debug, Clone, PartialEq)]
pub struct NodeDelRow {
    pub room: Vec<u8>,
    pub id: Vec<u8>,
    pub mdate: i64,
    pub entity: String,
    pub deletion_date: i64,
    pub author: Vec<u8>,
    pub signature: Vec<u8>,
}
impl NodeDelRow {
    pub fn line(&self) -> String {
        format!(
            "ND id={} m={} e={} d={} a={} s={}",
            hex(&self.id),
            self.mdate,
            self.entity,
            self.deletion_date,
            &hex(&self.author)[..12],
            &hex(&self.signature)[..16]
        )
    }
}

#[derive(Debug, Clone, PartialEq)]
pub struct EdgeDelRow {
    pub room: Vec<u8>,
    pub src: Vec<u8>,
    pub src_entity: String,
    pub dest: Vec<u8>,
    pub label: String,
    pub cdate: i64,
    pub deletion_date: i64,
    pub author: Vec<u8>,
    pub signature: Vec<u8>,
}
impl EdgeDelRow {
    pub fn line(&self) -> String {
        format!(
            "ED src={} e={} l={} dest={} c={} d={} a={} s={}",
            hex(&self.src),
            self.src_entity,
            self.label,
            hex(&self.dest),
            self.cdate,
            self.deletion_date,
            &hex(&self.author)[..12],
            &hex(&self.signature)[..16]
        )
    }
}

#[derive(Debug, Clone, PartialEq, Eq, PartialOrd, Ord)]
pub struct DailyRow {
    pub entity: String,
    pub date: i64,
    pub entry_number: i64,
    pub daily_hash: Option<Vec<u8>>,
    pub history_hash: Option<Vec<u8>>,
    pub need_recompute: Option<i64>,
}
impl DailyRow {
    pub fn line(&self) -> String {
        format!(
            "DL e={} d={} n={} dh={} hh={} r={}",
            self.entity,
            self.date,
            self.entry_number,
            self.daily_hash
                .as_ref()
                .map(|h| hex(h)[..12].to_string())
                .unwrap_or("-".into()),
            self.history_hash
                .as_ref()
                .map(|h| hex(h)[..12].to_string())
                .unwrap_or("-".into()),
            self.need_recompute.unwrap_or(-1)
        )
    }
}

#[derive(Debug, Clone, Default, PartialEq)]
pub struct RoomDump {
    pub nodes: Vec<NodeRow>,
    pub edges: Vec<EdgeRow>,
    pub node_del: Vec<NodeDelRow>,
    pub edge_del: Vec<EdgeDelRow>,
    pub daily: Vec<DailyRow>,
}

type R<T> = Result<T, String>;
fn e2s<T>(r: rusqlite::Result<T>) -> R<T> {
    r.map_err(|e| e.to_string())
}

pub fn dump_room(conn: &Connection, room: &Uid) -> R<RoomDump> {
    let mut d = RoomDump::default();
    {
        let mut st = e2s(conn.prepare(
            "SELECT id, room_id, cdate, mdate, _entity, _json, _binary, verifying_key, _signature, rowid FROM _node WHERE room_id = ? ORDER BY id, _entity, mdate",
        ))?;
        let rows = e2s(st.query_map([room.as_slice()], |r| {
            Ok(NodeRow {
                id: r.get(0)?,
                room: r.get(1)?,
                cdate: r.get(2)?,
                mdate: r.get(3)?,
                entity: r.get(4)?,
                json: r.get(5)?,
                binary: r.get(6)?,
                author: r.get(7)?,
                signature: r.get(8)?,
                rowid: r.get(9)?,
            })
        }))?;
        for r in rows {
            d.nodes.push(e2s(r)?);
        }
    }
    {
        let mut st = e2s(conn.prepare(
            "SELECT e.src, e.src_entity, e.label, e.dest, e.cdate, e.verifying_key, e.signature, NOT EXISTS (SELECT 1 FROM _node t WHERE t.id = e.dest) FROM _edge e JOIN _node n ON n.id = e.src AND n._entity = e.src_entity WHERE n.room_id = ? ORDER BY e.src, e.label, e.dest",
        ))?;
        let rows = e2s(st.query_map([room.as_slice()], |r| {
            Ok(EdgeRow {
                dangling: r.get(7)?,
                src: r.get(0)?,
                src_entity: r.get(1)?,
                label: r.get(2)?,
                dest: r.get(3)?,
                cdate: r.get(4)?,
                author: r.get(5)?,
                signature: r.get(6)?,
            })
        }))?;
        for r in rows {
            d.edges.push(e2s(r)?);
        }
    }
    {
        let mut st = e2s(conn.prepare(
            "SELECT room_id, id, mdate, entity, deletion_date, verifying_key, signature FROM _node_deletion_log WHERE room_id = ? ORDER BY id, entity, deletion_date",
        ))?;
        let rows = e2s(st.query_map([room.as_slice()], |r| {
            Ok(NodeDelRow {
                room: r.get(0)?,
                id: r.get(1)?,
                mdate: r.get(2)?,
                entity: r.get(3)?,
                deletion_date: r.get(4)?,
                author: r.get(5)?,
                signature: r.get(6)?,
            })
        }))?;
        for r in rows {
            d.node_del.push(e2s(r)?);
        }
    }
    {
        let mut st = e2s(conn.prepare(
            "SELECT room_id, src, src_entity, dest, label, cdate, deletion_date, verifying_key, signature FROM _edge_deletion_log WHERE room_id = ? ORDER BY src, label, dest, deletion_date",
        ))?;
        let rows = e2s(st.query_map([room.as_slice()], |r| {
            Ok(EdgeDelRow {
                room: r.get(0)?,
                src: r.get(1)?,
                src_entity: r.get(2)?,
                dest: r.get(3)?,
                label: r.get(4)?,
                cdate: r.get(5)?,
                deletion_date: r.get(6)?,
                author: r.get(7)?,
                signature: r.get(8)?,
            })
        }))?;
        for r in rows {
            d.edge_del.push(e2s(r)?);
        }
    }
    d.daily = dump_daily(conn, room)?;
    Ok(d)
}

pub fn dump_daily(conn: &Connection, room: &Uid) -> R<Vec<DailyRow>> {
    let mut out = vec![];
    let mut st = e2s(conn.prepare(
        "SELECT entity, date, entry_number, daily_hash, history_hash, need_recompute FROM _daily_log WHERE room_id = ? ORDER BY entity, date",
    ))?;
    let rows = e2s(st.query_map([room.as_slice()], |r| {
        Ok(DailyRow {
            entity: r.get(0)?,
            date: r.get(1)?,
            entry_number: r.get(2)?,
            daily_hash: r.get(3)?,
            history_hash: r.get(4)?,
            need_recompute: r.get(5)?,
        })
    }))?;
    for r in rows {
        out.push(e2s(r)?);
    }
    Ok(out)
}

impl RoomDump {
    /// the synchronised content (everything but the derived daily log)
    pub fn content_lines(&self) -> Vec<String> {
        let mut v = vec![];
        for n in &self.nodes {
            v.push(n.line());
        }
        // a reference whose target row is not stored is invisible to every query (a deleted target leaves such references
        // on the peers that learn the deletion by synchronisation): it is not part of what peers must agree on
        for e in self.edges.iter().filter(|e| !e.dangling) {
            v.push(e.line());
        }
        for n in &self.node_del {
            v.push(n.line());
        }
        for e in &self.edge_del {
            v.push(e.line());
        }
        v.sort();
        v
    }
    /// what the daily log is a function of: rows and deletion records (not references)
    pub fn logged_lines(&self) -> Vec<String> {
        let mut v = vec![];
        for n in &self.nodes {
            v.push(n.line());
        }
        for n in &self.node_del {
            v.push(n.line());
        }
        for e in &self.edge_del {
            v.push(e.line());
        }
        v.sort();
        v
    }
    pub fn daily_lines(&self) -> Vec<String> {
        self.daily.iter().map(|d| d.line()).collect()
    }
    pub fn content_digest(&self) -> String {
        let mut h = blake3::Hasher::new();
        for l in self.content_lines() {
            h.update(l.as_bytes());
            h.update(b"\n");
        }
        h.finalize().to_hex()[..16].to_string()
    }
    pub fn full_digest(&self) -> String {
        let mut h = blake3::Hasher::new();
        for l in self.content_lines() {
            h.update(l.as_bytes());
            h.update(b"\n");
        }
        for l in self.daily_lines() {
            h.update(l.as_bytes());
            h.update(b"\n");
        }
        h.finalize().to_hex()[..16].to_string()
    }

    /// (entity, day) -> sorted signatures that the daily log of that day must cover, from the dump alone
    pub fn expected_daily(&self) -> BTreeMap<(String, i64), Vec<Vec<u8>>> {
        let mut m: BTreeMap<(String, i64), Vec<Vec<u8>>> = BTreeMap::new();
        for n in &self.nodes {
            m.entry((n.entity.clone(), crate::kit::day_of(n.mdate)))
                .or_default()
                .push(n.signature.clone());
        }
        for n in &self.node_del {
            m.entry((n.entity.clone(), crate::kit::day_of(n.deletion_date)))
                .or_default()
                .push(n.signature.clone());
        }
        for e in &self.edge_del {
            m.entry((e.src_entity.clone(), crate::kit::day_of(e.deletion_date)))
                .or_default()
                .push(e.signature.clone());
        }
        for v in m.values_mut() {
            v.sort();
        }
        m
    }
}

/// first differing line between two sorted line sets, for reports
pub fn first_diff(a: &[String], b: &[String]) -> Option<String> {
    let sa: std::collections::BTreeSet<&String> = a.iter().collect();
    let sb: std::collections::BTreeSet<&String> = b.iter().collect();
    if let Some(x) = sa.difference(&sb).next() {
        return Some(format!("only-left: {x}"));
    }
    if let Some(x) = sb.difference(&sa).next() {
        return Some(format!("only-right: {x}"));
    }
    None
}

/// Daily-log oracle, part (i): count and daily hash recomputed by harness code from the dump.
/// Returns a list of (clause, detail).
pub fn check_daily_against_dump(d: &RoomDump) -> Vec<(String, String)> {
    let mut out = vec![];
    let exp = d.expected_daily();
    let mut seen = std::collections::BTreeSet::new();
    for row in &d.daily {
        seen.insert((row.entity.clone(), row.date));
        if row.need_recompute.unwrap_or(0) != 0 {
            out.push((
                "marked-after-barrier".to_string(),
                format!("entity {} day {} still marked", row.entity, row.date),
            ));
            continue;
        }
        let sigs = exp.get(&(row.entity.clone(), row.date));
        let (n, h) = match sigs {
            Some(s) => {
                let mut hasher = blake3::Hasher::new();
                for x in s {
                    hasher.update(x);
                }
                (s.len() as i64, Some(hasher.finalize().as_bytes().to_vec()))
            }
            None => (0, None),
        };
        if row.entry_number != n || row.daily_hash != h {
            out.push((
                "stale-or-wrong-daily".to_string(),
                format!(
                    "entity {} day {}: stored n={} hash={} expected n={} hash={}",
                    row.entity,
                    row.date,
                    row.entry_number,
                    row.daily_hash.as_ref().map(|x| hex(&x[..6])).unwrap_or("-".into()),
                    n,
                    h.as_ref().map(|x| hex(&x[..6])).unwrap_or("-".into())
                ),
            ));
        }
    }
    for (k, s) in &exp {
        if !seen.contains(k) && !s.is_empty() {
            out.push((
                "stale-or-wrong-daily".to_string(),
                format!("entity {} day {}: {} entries stored but no log row", k.0, k.1, s.len()),
            ));
        }
    }
    out
}

/// Daily-log oracle, part (ii): from-scratch rebuild with the real `DailyLogsUpdate::compute` over a
/// scratch in-memory database holding exactly the dumped rows, every day marked.
pub fn rebuild_daily(d: &RoomDump, room: &Uid) -> R<Vec<DailyRow>> {
    let conn = e2s(Connection::open_in_memory())?;
    dv::prepare_connection(&conn).map_err(|e| e.to_string())?;
    for n in &d.nodes {
        e2s(conn.execute(
            "INSERT INTO _node (id, room_id, cdate, mdate, _entity, _json, _binary, verifying_key, _signature) VALUES (?,?,?,?,?,?,?,?,?)",
            rusqlite::params![n.id, n.room, n.cdate, n.mdate, n.entity, n.json, n.binary, n.author, n.signature],
        ))?;
    }
    for n in &d.node_del {
        e2s(conn.execute(
            "INSERT INTO _node_deletion_log (room_id, id, mdate, entity, deletion_date, verifying_key, signature) VALUES (?,?,?,?,?,?,?)",
            rusqlite::params![n.room, n.id, n.mdate, n.entity, n.deletion_date, n.author, n.signature],
        ))?;
    }
    for e in &d.edge_del {
        e2s(conn.execute(
            "INSERT INTO _edge_deletion_log (room_id, src, src_entity, dest, label, cdate, deletion_date, verifying_key, signature) VALUES (?,?,?,?,?,?,?,?,?)",
            rusqlite::params![e.room, e.src, e.src_entity, e.dest, e.label, e.cdate, e.deletion_date, e.author, e.signature],
        ))?;
    }
    // mark every (entity, day) that the node's log has a row for, plus every day holding content
    let mut marks = dv::DailyMutations::default();
    for row in &d.daily {
        marks.set_need_update(*room, &row.entity, row.date);
    }
    for k in d.expected_daily().keys() {
        marks.set_need_update(*room, &k.0, k.1);
    }
    e2s(marks.write(&conn))?;
    let mut upd = dv::DailyLogsUpdate::default();
    e2s(upd.compute(&conn))?;
    dump_daily(&conn, room)
}

/// every synchronised or derived table of the whole database, as sorted text lines (for "nothing changed" checks)
pub fn dump_all(conn: &Connection) -> R<Vec<String>> {
    let mut v = vec![];
    {
        let mut st = e2s(conn.prepare("SELECT id, room_id, cdate, mdate, _entity, _json, _binary, verifying_key, _signature FROM _node"))?;
        let mut rows = e2s(st.query([]))?;
        while let Some(r) = e2s(rows.next())? {
            let id: Vec<u8> = e2s(r.get(0))?;
            let room: Option<Vec<u8>> = e2s(r.get(1))?;
            let c: i64 = e2s(r.get(2))?;
            let m: i64 = e2s(r.get(3))?;
            let e: String = e2s(r.get(4))?;
            let j: Option<String> = e2s(r.get(5))?;
            let b: Option<Vec<u8>> = e2s(r.get(6))?;
            let a: Vec<u8> = e2s(r.get(7))?;
            let s: Vec<u8> = e2s(r.get(8))?;
            v.push(format!("N {} {} {c} {m} {e} {} {} {} {}", hex(&id), room.map(|x| hex(&x)).unwrap_or("-".into()), j.unwrap_or("-".into()), b.map(|x| hex(&x)).unwrap_or("-".into()), &hex(&a)[..12], &hex(&s)[..16]));
        }
    }
    for (tag, q, n) in [
        ("E", "SELECT hex(src)||' '||src_entity||' '||label||' '||hex(dest)||' '||cdate||' '||substr(hex(signature),1,16) FROM _edge", 1),
        ("ND", "SELECT hex(room_id)||' '||hex(id)||' '||mdate||' '||entity||' '||deletion_date||' '||substr(hex(signature),1,16) FROM _node_deletion_log", 1),
        ("ED", "SELECT hex(room_id)||' '||hex(src)||' '||label||' '||hex(dest)||' '||cdate||' '||deletion_date||' '||substr(hex(signature),1,16) FROM _edge_deletion_log", 1),
        ("DL", "SELECT hex(room_id)||' '||entity||' '||date||' '||entry_number||' '||ifnull(hex(daily_hash),'-')||' '||ifnull(hex(history_hash),'-')||' '||ifnull(need_recompute,-1) FROM _daily_log", 1),
        ("RC", "SELECT hex(room_id)||' '||mdate FROM _room_changelog", 1),
    ] {
        let _ = n;
        let mut st = e2s(conn.prepare(q))?;
        let mut rows = e2s(st.query([]))?;
        while let Some(r) = e2s(rows.next())? {
            let s: String = e2s(r.get(0))?;
            v.push(format!("{tag} {s}"));
        }
    }
    v.sort();
    Ok(v)
}

/// C06: every stored row that can be synchronised verifies against its own signature, exactly as stored.
/// Returns (kind, description) of every row, reference or deletion record that does not.
pub fn verify_stored_signatures(conn: &Connection) -> R<Vec<(String, String)>> {
    let mut bad = vec![];
    {
        let mut st = e2s(conn.prepare("SELECT id, room_id, cdate, mdate, _entity, _json, _binary, verifying_key, _signature FROM _node"))?;
        let mut rows = e2s(st.query([]))?;
        while let Some(r) = e2s(rows.next())? {
            let idv: Vec<u8> = e2s(r.get(0))?;
            let room: Option<Vec<u8>> = e2s(r.get(1))?;
            let mut id = [0u8; 16];
            if idv.len() != 16 {
                continue;
            }
            id.copy_from_slice(&idv);
            let room_id = room.and_then(|x| {
                if x.len() == 16 {
                    let mut u = [0u8; 16];
                    u.copy_from_slice(&x);
                    Some(u)
                } else {
                    None
                }
            });
            let n = dv::Node { id, room_id, cdate: e2s(r.get(2))?, mdate: e2s(r.get(3))?, _entity: e2s(r.get(4))?, _json: e2s(r.get(5))?, _binary: e2s(r.get(6))?, verifying_key: e2s(r.get(7))?, _signature: e2s(r.get(8))?, _local_id: None };
            if n.verify().is_err() {
                bad.push(("row".to_string(), format!("row {} of entity {} dated {}", hex(&n.id), n._entity, n.mdate)));
            }
        }
    }
    {
        let mut st = e2s(conn.prepare("SELECT src, src_entity, label, dest, cdate, verifying_key, signature FROM _edge"))?;
        let mut rows = e2s(st.query([]))?;
        while let Some(r) = e2s(rows.next())? {
            let s: Vec<u8> = e2s(r.get(0))?;
            let d: Vec<u8> = e2s(r.get(3))?;
            if s.len() != 16 || d.len() != 16 {
                continue;
            }
            let (mut src, mut dest) = ([0u8; 16], [0u8; 16]);
            src.copy_from_slice(&s);
            dest.copy_from_slice(&d);
            let e = dv::Edge { src, src_entity: e2s(r.get(1))?, label: e2s(r.get(2))?, dest, cdate: e2s(r.get(4))?, verifying_key: e2s(r.get(5))?, signature: e2s(r.get(6))? };
            if e.verify().is_err() {
                bad.push(("reference".to_string(), format!("reference {}-{}->{}", hex(&e.src), e.label, hex(&e.dest))));
            }
        }
    }
    {
        let mut st = e2s(conn.prepare("SELECT room_id, id, entity, mdate, deletion_date, verifying_key, signature FROM _node_deletion_log"))?;
        let mut rows = e2s(st.query([]))?;
        while let Some(r) = e2s(rows.next())? {
            let ro: Vec<u8> = e2s(r.get(0))?;
            let i: Vec<u8> = e2s(r.get(1))?;
            if ro.len() != 16 || i.len() != 16 {
                continue;
            }
            let (mut room_id, mut id) = ([0u8; 16], [0u8; 16]);
            room_id.copy_from_slice(&ro);
            id.copy_from_slice(&i);
            let e = dv::NodeDeletionEntry { room_id, id, entity: e2s(r.get(2))?, mdate: e2s(r.get(3))?, deletion_date: e2s(r.get(4))?, verifying_key: e2s(r.get(5))?, signature: e2s(r.get(6))?, entity_name: None };
            if e.verify().is_err() {
                bad.push(("row-deletion-record".to_string(), format!("deletion record of row {}", hex(&e.id))));
            }
        }
    }
    {
        let mut st = e2s(conn.prepare("SELECT room_id, src, src_entity, dest, label, cdate, deletion_date, verifying_key, signature FROM _edge_deletion_log"))?;
        let mut rows = e2s(st.query([]))?;
        while let Some(r) = e2s(rows.next())? {
            let ro: Vec<u8> = e2s(r.get(0))?;
            let s: Vec<u8> = e2s(r.get(1))?;
            let d: Vec<u8> = e2s(r.get(3))?;
            if ro.len() != 16 || s.len() != 16 || d.len() != 16 {
                continue;
            }
            let (mut room_id, mut src, mut dest) = ([0u8; 16], [0u8; 16], [0u8; 16]);
            room_id.copy_from_slice(&ro);
            src.copy_from_slice(&s);
            dest.copy_from_slice(&d);
            let e = dv::EdgeDeletionEntry { room_id, src, src_entity: e2s(r.get(2))?, dest, label: e2s(r.get(4))?, cdate: e2s(r.get(5))?, deletion_date: e2s(r.get(6))?, verifying_key: e2s(r.get(7))?, signature: e2s(r.get(8))?, entity_name: None };
            if e.verify().is_err() {
                bad.push(("reference-deletion-record".to_string(), format!("deletion record of reference {}-{}->{}", hex(&e.src), e.label, hex(&e.dest))));
            }
        }
    }
    Ok(bad)
}
