//! Simulated transport between two nodes: the simulator owns both ends of the channels that the
//! real `QueryService` (puller) and the real `InboundQueryService::process_inbound` (server) talk through.
use crate::node::{Hung, SimNode};
use discret::verif as dv;
use discret::verif::{
    Answer, HardwareFingerprint, InboundQueryService, LocalPeerService, PeerConnectionMessage,
    PeerConnectionService, QueryProtocol, QueryService, RemotePeerHandle, SyncQuery, Uid,
};
use std::collections::{HashSet, VecDeque};
use std::sync::atomic::AtomicBool;
use std::sync::Arc;
use tokio::sync::mpsc;
use tokio::task::JoinHandle;

pub fn query_kind(q: &SyncQuery) -> &'static str {
    match q {
        SyncQuery::ProveIdentity(_) => "ProveIdentity",
        SyncQuery::HardwareFingerprint() => "HardwareFingerprint",
        SyncQuery::RoomList => "RoomList",
        SyncQuery::RoomDefinition(_) => "RoomDefinition",
        SyncQuery::RoomNode(_) => "RoomNode",
        SyncQuery::RoomLog(_) => "RoomLog",
        SyncQuery::RoomLogAt(_, _) => "RoomLogAt",
        SyncQuery::EdgeDeletionLog(_, _, _) => "EdgeDeletionLog",
        SyncQuery::NodeDeletionLog(_, _, _) => "NodeDeletionLog",
        SyncQuery::RoomDailyNodes(_, _, _) => "RoomDailyNodes",
        SyncQuery::Nodes(_, _) => "Nodes",
        SyncQuery::Edges(_, _) => "Edges",
        SyncQuery::PeersForRoom(_) => "PeersForRoom",
    }
}

/// the serving half of a connection: what `InboundQueryService::start` would own
pub struct ServerSide {
    pub handle: Arc<tokio::sync::Mutex<RemotePeerHandle>>,
    pub remote_key: Arc<tokio::sync::Mutex<Vec<u8>>>,
    pub ready: Arc<AtomicBool>,
    pub rep_rx: mpsc::Receiver<Answer>,
}
impl ServerSide {
    pub fn new(server: &SimNode, allowed: HashSet<Uid>, remote_key: Vec<u8>, ready: bool) -> Self {
        let (rep_tx, rep_rx) = mpsc::channel::<Answer>(1 << 16);
        ServerSide {
            handle: Arc::new(tokio::sync::Mutex::new(RemotePeerHandle {
                allowed_room: allowed,
                db: server.dbh(),
                verifying_key: server.vk.clone(),
                reply: rep_tx,
            })),
            remote_key: Arc::new(tokio::sync::Mutex::new(remote_key)),
            ready: Arc::new(AtomicBool::new(ready)),
            rep_rx,
        }
    }

    /// run the real `process_inbound` for one query on the server node; returns the answers it produced
    pub fn serve(&mut self, server: &mut SimNode, q: QueryProtocol) -> Result<Vec<Answer>, Hung> {
        let (h, k, r) = (self.handle.clone(), self.remote_key.clone(), self.ready.clone());
        let _ok = server.run(async move {
            let fp = HardwareFingerprint {
                id: [7; 16],
                name: "dsim".into(),
            };
            let mut hh = h.lock().await;
            InboundQueryService::process_inbound(q, &mut hh, &k, &r, &fp)
                .await
                .is_ok()
        })?;
        let mut out = vec![];
        while let Ok(a) = self.rep_rx.try_recv() {
            out.push(a);
        }
        Ok(out)
    }
}

/// One pull of one room: the real `synchronise_room` runs as a task on the puller's runtime.
pub struct Session {
    pub puller: usize,
    pub server: usize,
    pub room: Uid,
    q_rx: Option<mpsc::Receiver<QueryProtocol>>,
    a_tx: Option<mpsc::Sender<Answer>>,
    pub side: ServerSide,
    pub task: Option<JoinHandle<Result<(), String>>>,
    pub pending_queries: VecDeque<QueryProtocol>,
    pub pending_answers: VecDeque<Answer>,
    pub delivered: usize,
    pub trace: Vec<String>,
    pub new_peer_msgs: usize,
    ps_rx: mpsc::Receiver<PeerConnectionMessage>,
    pub requests_seen: Vec<&'static str>,
    /// man in the middle: sees the kind of each request and the answers the server produced for it, returns what the puller receives
    pub mitm: Option<Box<dyn FnMut(&'static str, Vec<Answer>) -> Vec<Answer>>>,
}

#[derive(Debug, Clone, PartialEq)]
pub enum SessionEnd {
    Ok,
    Err(String),
    Cut,
}

impl Session {
    pub fn open(puller: &mut SimNode, server: &SimNode, room: Uid) -> Session {
        let (q_tx, q_rx) = mpsc::channel::<QueryProtocol>(256);
        let (a_tx, a_rx) = mpsc::channel::<Answer>(256);
        let side = ServerSide::new(server, HashSet::from([room]), puller.vk.clone(), true);
        puller.activate();
        let qs = {
            let _g = puller.rt().enter();
            QueryService::start(q_tx, a_rx)
        };
        let (ps_tx, ps_rx) = mpsc::channel(4096);
        let ps = PeerConnectionService { sender: ps_tx };
        let sv = puller.services.clone().expect("puller down");
        let task = puller.spawn(async move {
            LocalPeerService::verif_synchronise_room(room, &qs, ps, &sv)
                .await
                .map_err(|e| e.to_string())
        });
        Session {
            puller: puller.idx,
            server: server.idx,
            room,
            q_rx: Some(q_rx),
            a_tx: Some(a_tx),
            side,
            task: Some(task),
            pending_queries: VecDeque::new(),
            pending_answers: VecDeque::new(),
            delivered: 0,
            trace: vec![],
            new_peer_msgs: 0,
            ps_rx,
            requests_seen: vec![],
            mitm: None,
        }
    }

    pub fn finished(&self) -> bool {
        self.task.as_ref().map(|t| t.is_finished()).unwrap_or(true)
    }

    /// let the puller run until quiescent and collect the queries it emitted
    pub fn pump_puller(&mut self, puller: &mut SimNode) -> Result<(), Hung> {
        puller.settle()?;
        if let Some(rx) = self.q_rx.as_mut() {
            while let Ok(q) = rx.try_recv() {
                self.trace.push(format!("q{}:{}", q.id, query_kind(&q.query)));
                self.requests_seen.push(query_kind(&q.query));
                self.pending_queries.push_back(q);
            }
        }
        while let Ok(m) = self.ps_rx.try_recv() {
            if let PeerConnectionMessage::NewPeer(_) = m {
                self.new_peer_msgs += 1;
            }
        }
        Ok(())
    }

    /// deliver the oldest pending query to the server (real serving code) and queue its answers
    pub fn deliver_query(&mut self, server: &mut SimNode) -> Result<bool, Hung> {
        if let Some(q) = self.pending_queries.pop_front() {
            let kind = query_kind(&q.query);
            let answers = self.side.serve(server, q)?;
            let answers = match self.mitm.as_mut() {
                Some(f) => f(kind, answers),
                None => answers,
            };
            for a in answers {
                self.trace.push(format!(
                    "a{}:{}{}{}",
                    a.id,
                    a.serialized.len(),
                    if a.complete { "!" } else { "" },
                    if a.success { "" } else { "x" }
                ));
                self.pending_answers.push_back(a);
            }
            self.delivered += 1;
            Ok(true)
        } else {
            Ok(false)
        }
    }

    /// deliver the oldest pending answer to the puller
    pub fn deliver_answer(&mut self, puller: &mut SimNode) -> Result<bool, Hung> {
        if let Some(a) = self.pending_answers.pop_front() {
            if let Some(tx) = self.a_tx.clone() {
                let _ = puller.run(async move { tx.send(a).await.is_ok() })?;
            }
            self.delivered += 1;
            self.pump_puller(puller)?;
            Ok(true)
        } else {
            Ok(false)
        }
    }

    /// cut the connection: both channel ends of the puller's query service are closed
    pub fn cut(&mut self, puller: &mut SimNode) -> Result<(), Hung> {
        self.q_rx = None;
        self.a_tx = None;
        self.pending_answers.clear();
        self.pending_queries.clear();
        self.trace.push("CUT".into());
        if puller.is_up() {
            puller.settle()?;
        }
        Ok(())
    }

    /// result of the pull task if it is finished
    pub fn result(&mut self, puller: &mut SimNode) -> Option<SessionEnd> {
        if !self.finished() {
            return None;
        }
        let t = self.task.take()?;
        match puller.run(async move { t.await }) {
            Ok(Ok(Ok(()))) => Some(SessionEnd::Ok),
            Ok(Ok(Err(e))) => Some(SessionEnd::Err(e)),
            Ok(Err(e)) => Some(SessionEnd::Err(format!("join: {e}"))),
            Err(_) => Some(SessionEnd::Err("hung".into())),
        }
    }

    /// abort the puller task (used when the puller is being crashed or the session abandoned)
    pub fn abandon(&mut self) {
        if let Some(t) = self.task.take() {
            t.abort();
        }
        self.q_rx = None;
        self.a_tx = None;
    }
}

/// run one complete pull in protocol order; `cut_after` = number of delivered messages after which the
/// connection is cut (None: never)
pub fn pull(
    puller: &mut SimNode,
    server: &mut SimNode,
    room: Uid,
    cut_after: Option<usize>,
) -> Result<(SessionEnd, Session), Hung> {
    let mut s = Session::open(puller, server, room);
    s.pump_puller(puller)?;
    let mut guard = 0;
    loop {
        guard += 1;
        if guard > 200_000 {
            return Err(Hung::Run);
        }
        if let Some(n) = cut_after {
            if s.delivered >= n && s.a_tx.is_some() {
                s.cut(puller)?;
            }
        }
        if s.finished() {
            break;
        }
        if s.deliver_answer(puller)? {
            continue;
        }
        if s.deliver_query(server)? {
            continue;
        }
        // nothing to deliver and the task is not finished: it is waiting on something else
        puller.settle()?;
        s.pump_puller(puller)?;
        if s.pending_queries.is_empty() && s.pending_answers.is_empty() && !s.finished() {
            if s.a_tx.is_none() {
                // cut and still not finished: the task waits for a timeout; fire it
                puller.advance_timers(std::time::Duration::from_secs(
                    dv::NETWORK_TIMEOUT_SEC + 1,
                ))?;
                if !s.finished() {
                    s.abandon();
                    return Ok((SessionEnd::Err("stuck after cut".into()), s));
                }
            } else {
                let mut diag = format!(
                    "stuck inflight(p)={} held(p)={} inflight(s)={} threads(p)={} trace={}",
                    dv::inflight_now(puller.idx),
                    dv::held_now(puller.idx),
                    dv::inflight_now(server.idx),
                    dv::live_threads(puller.idx),
                    s.trace.join(" ")
                );
                if std::env::var("DSIM_DIAG").is_ok() {
                    // which service of the puller is not answering?
                    let q = puller.query("query { Person{ id } }", None).map(|_| ());
                    diag.push_str(&format!(" | probe query={q:?}"));
                    let sv = puller.services.clone().unwrap();
                    let v = puller.run(async move { sv.signature_verification.verify_nodes(vec![]).await.is_ok() });
                    diag.push_str(&format!(" verify={v:?}"));
                    let db = puller.dbh();
                    let w = puller.run(async move { db.add_peer_nodes(vec![]).await.is_ok() });
                    diag.push_str(&format!(" write={w:?}"));
                    diag.push_str(&format!(" inflight after={}", dv::inflight_now(puller.idx)));
                }
                s.abandon();
                return Ok((SessionEnd::Err(diag), s));
            }
        }
    }
    let end = s.result(puller).unwrap_or(SessionEnd::Err("no result".into()));
    let end = if s.a_tx.is_none() && end != SessionEnd::Ok {
        SessionEnd::Cut
    } else {
        end
    };
    Ok((end, s))
}
